#!/venv/bin/python
"""Print the markdown table of seeded / hand-made changes and which check catches them (for DESIGN.md section 9.5)."""
import json
import os
import re

HERE = os.path.dirname(os.path.dirname(os.path.abspath(__file__)))
sd = os.path.join(HERE, 'seeded')
res = json.load(open(os.path.join(sd, 'RESULTS.json')))
print('| id | property | what the change does (trigger) | own check, quick tier |')
print('|---|---|---|---|')
for mid in sorted(d for d in os.listdir(sd) if os.path.isdir(os.path.join(sd, d))):
    meta = json.load(open(os.path.join(sd, mid, 'meta.json')))
    diff = open(os.path.join(sd, mid, 'patch.diff')).read()
    files = sorted(set(re.findall(r'^\+\+\+ b/(\S+)', diff, re.M)))
    fn = []
    desc = ' '.join(meta.get('needs_to_manifest', '').replace('|', '/').split())
    r = res.get(mid, {})
    own = 'retired (edited code removed by a repair)' if meta.get('retired') else r.get(meta['breaks_property'] + ':quick', '?')
    for cc in meta.get('cross_checks', []):
        if own != 'caught' and r.get(cc + ':quick') == 'caught':
            own += '; caught by %s' % cc
    if len(desc) > 330:
        desc = desc[:327] + '...'
    print('| %s | %s | %s (%s%s) | %s |' % (mid, meta['breaks_property'], desc, ', '.join(os.path.basename(f) for f in files),
                                          (': ' + fn[0]) if fn else '', own))
