#!/venv/bin/python
"""Merge partial result files of parallel tools/run_seeded.py runs (SEEDED_RESULTS=<file>) into seeded/RESULTS.json.
usage: tools/merge_results.py <file> [<file> ...]   - later files win per (mutant, check)."""
import json
import os
import sys

HERE = os.path.dirname(os.path.dirname(os.path.abspath(__file__)))
dst = os.path.join(HERE, 'seeded', 'RESULTS.json')
res = json.load(open(dst))
for f in sys.argv[1:]:
    if not os.path.exists(f):
        continue
    for mid, d in json.load(open(f)).items():
        res.setdefault(mid, {}).update(d)
json.dump(res, open(dst, 'w'), indent=1, sort_keys=True)
print(len(res), 'mutants in', dst)
