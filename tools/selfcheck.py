#!/venv/bin/python
"""Self-checks of oracle components against independent implementations (not part of any verdict)."""
import datetime
import os
import sys
sys.path.insert(0, os.path.dirname(os.path.dirname(os.path.abspath(__file__))))
from vlib import env  # noqa: E402
env.setup()
from vlib import refhtml  # noqa: E402
assert all(refhtml.weeks(y) == datetime.date(y, 12, 28).isocalendar()[1] for y in range(1, 10000))
assert all(refhtml.dow_jan1(y) == datetime.date(y, 1, 1).weekday() for y in range(1, 10000))
assert all(refhtml.dec31_in_week1(y) == (datetime.date(y, 12, 31).isocalendar()[1] == 1) for y in range(1, 10000))
assert all(refhtml.dim(y, m) == ((datetime.date(y + (m == 12), m % 12 + 1, 1) - datetime.timedelta(days=1)).day) for y in range(1, 9999) for m in range(1, 13))
print('calendar self-check ok (years 1..9999 against datetime)')
