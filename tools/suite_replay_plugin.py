"""pytest plugin: run the repository's own tests with the API recorder and the reference-free monitors switched on.

Active only when SOUPSIEVE_VERIF=1.  Every select/iselect/select_one/match/filter/closest call the tests make (module
level or compiled object) is shadowed by:
  * C04(c) tree-mutation tripwire: structural fingerprint of the whole document before and after the call;
  * C03/C04(b): for :scope-free selectors, select(t) == [e for e in descendants(t) if match(e)], iselect == select,
    select_one == first;
  * C08: an exception escaping a query whose target is a Tag is recorded (tests that *expect* an exception are recognised by
    the exception reaching pytest.raises - those are reported separately as 'expected by the test').
Findings are written as JSON to $SOUPSIEVE_VERIF_OUT.  The plugin never changes what a test observes.
"""
import json
import os
import sys

ACTIVE = os.environ.get('SOUPSIEVE_VERIF') == '1'
STATE = {'calls': 0, 'select_vs_match': 0, 'fingerprints': 0, 'violations': [], 'raised': 0, 'selectors': set()}


def pytest_configure(config):
    if not ACTIVE:
        return
    sys.path.insert(0, os.path.dirname(os.path.dirname(os.path.abspath(__file__))))
    import soupsieve as sv
    import bs4
    from vlib import monitors, trees
    cm = sv.css_match
    orig = {n: getattr(cm.SoupSieve, n) for n in ('select', 'iselect', 'select_one', 'match', 'filter', 'closest')}
    busy = [False]

    def top_of(t):
        return trees.topmost(t) if isinstance(t, bs4.element.PageElement) else None

    def wrap(name):
        f = orig[name]

        def w(self, tag, *a, **kw):
            if busy[0] or not isinstance(tag, bs4.Tag):
                return f(self, tag, *a, **kw)
            busy[0] = True
            try:
                top = top_of(tag)
                before = monitors.tree_fingerprint(top)
                STATE['calls'] += 1
                STATE['selectors'].add(self.pattern)
                try:
                    r = f(self, tag, *a, **kw)
                    if name == 'iselect':
                        r = list(r)
                except Exception:
                    STATE['raised'] += 1
                    raise
                finally:
                    after = monitors.tree_fingerprint(top)
                    STATE['fingerprints'] += 1
                    if after != before:
                        STATE['violations'].append({'monitor': 'mutation', 'op': name, 'pattern': self.pattern})
                if name == 'select' and not a and not kw and ':scope' not in self.pattern and '&' not in self.pattern:
                    want = [e for e in tag.descendants if isinstance(e, bs4.Tag) and orig['match'](self, e)]
                    STATE['select_vs_match'] += 1
                    if [id(x) for x in want] != [id(x) for x in r]:
                        STATE['violations'].append({'monitor': 'select-vs-match', 'pattern': self.pattern,
                                                    'markup': trees.describe(top, 400)})
                    if [id(x) for x in orig['iselect'](self, tag)] != [id(x) for x in r]:
                        STATE['violations'].append({'monitor': 'iselect!=select', 'pattern': self.pattern})
                    one = orig['select_one'](self, tag)
                    if (one is not r[0]) if r else (one is not None):
                        STATE['violations'].append({'monitor': 'select_one!=first', 'pattern': self.pattern})
                return iter(r) if name == 'iselect' else r
            finally:
                busy[0] = False
        w.__name__ = name
        return w
    for n in orig:
        setattr(cm.SoupSieve, n, wrap(n))


def pytest_sessionfinish(session, exitstatus):
    if not ACTIVE:
        return
    out = os.environ.get('SOUPSIEVE_VERIF_OUT')
    if out:
        STATE['selectors'] = len(STATE['selectors'])
        STATE['exitstatus'] = int(exitstatus)
        json.dump(STATE, open(out, 'w'))
