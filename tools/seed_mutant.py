#!/venv/bin/python
"""Confirm a sub-agent's mutant in a fresh scratch worktree and store it under /verif/seeded/<id>/.

usage: tools/seed_mutant.py <Cxx> <a|b> [<source dir, default /tmp/wt/<Cxx>/_out>]
Confirms: demo exits 0 on the clean tree; patch applies; full test suite passes with the patch; demo exits 1 with it.
"""
import json
import os
import re
import shutil
import subprocess
import sys
import tempfile

pid, letter = sys.argv[1], sys.argv[2]
src = sys.argv[3] if len(sys.argv) > 3 else '/tmp/wt/%s/_out' % pid
store_as = sys.argv[4] if len(sys.argv) > 4 else letter
diff = os.path.join(src, 'mutant_%s.diff' % letter)
demo = os.path.join(src, 'demo_%s.py' % letter)
wt = tempfile.mkdtemp(prefix='seedchk.', dir='/tmp')
os.rmdir(wt)
subprocess.run(['git', '-C', '/repo', 'worktree', 'add', '-q', '--detach', wt, 'HEAD'], check=True)
ran = []
ok = True
try:
    os.makedirs(os.path.join(wt, '_out'))
    shutil.copy(demo, os.path.join(wt, '_out', os.path.basename(demo)))
    env = dict(os.environ, PYTHONPATH=wt)

    def run(cmd, **kw):
        r = subprocess.run(cmd, cwd=wt, env=env, capture_output=True, text=True, timeout=900, **kw)
        ran.append({'cmd': ' '.join(cmd), 'exit': r.returncode, 'tail': (r.stdout + r.stderr)[-300:]})
        return r
    r0 = run(['/venv/bin/python', '_out/' + os.path.basename(demo)])
    ra = run(['git', 'apply', diff])
    rt = run(['/venv/bin/python', '-m', 'pytest', '-q', '-p', 'no:cacheprovider', '-x'])
    r1 = run(['/venv/bin/python', '_out/' + os.path.basename(demo)])
    passed = re.search(r'(\d+) passed', rt.stdout)
    ok = r0.returncode == 0 and ra.returncode == 0 and rt.returncode == 0 and passed and int(passed.group(1)) == 381 \
        and r1.returncode == 1
    print('clean demo exit', r0.returncode, '| apply', ra.returncode, '| tests', rt.returncode,
          passed.group(0) if passed else rt.stdout[-200:], '| mutant demo exit', r1.returncode, '=>', 'CONFIRMED' if ok else 'REJECTED')
    if not ok:
        print(r1.stdout[-500:], r1.stderr[-500:])
finally:
    subprocess.run(['git', '-C', '/repo', 'worktree', 'remove', '--force', wt])
if ok:
    out = '/verif/seeded/%s%s' % (pid, store_as)
    os.makedirs(out, exist_ok=True)
    shutil.copy(diff, os.path.join(out, 'patch.diff'))
    shutil.copy(demo, os.path.join(out, 'demo.py'))
    notes = ''
    np_ = os.path.join(src, 'notes.md')
    if os.path.exists(np_):
        notes = open(np_).read()
    meta = {'breaks_property': pid, 'mutant': store_as, 'origin': 'fresh sub-agent given only the property text and a scratch worktree',
            'needs_to_manifest': '(see notes)', 'notes': notes[:6000],
            'base_commit': subprocess.run(['git', '-C', '/repo', 'rev-parse', 'HEAD'], capture_output=True, text=True).stdout.strip(),
            'confirmation': ran}
    json.dump(meta, open(os.path.join(out, 'meta.json'), 'w'), indent=1)
    print('stored', out)
sys.exit(0 if ok else 1)
