#!/bin/bash
# usage: tools/run_all.sh <tier> [seed]   - runs every registered check once, prints one line per check
tier=${1:-quick}; seed=${2:-0}
cd "$(dirname "$0")/.."
for i in 01 02 03 04 05 06 07 08 09 10 11 12 13 14 15 16 17 18 19 20; do
  s=$(date +%s)
  ./check C$i --tier $tier --seed $seed > /tmp/run_all_C$i.$tier.$seed.log 2>&1
  rc=$?
  echo "C$i tier=$tier seed=$seed exit=$rc $(( $(date +%s) - s ))s $(grep -E 'tier=' /tmp/run_all_C$i.$tier.$seed.log | cut -c1-140)"
  grep -E '^(VIOLATION|INCONCLUSIVE)' /tmp/run_all_C$i.$tier.$seed.log | head -5 | cut -c1-300
done
