reg('C01', 'runtime monitoring: reference-model oracle on tree snapshots (random + exhaustive small scope)',
    'Every select() call the workload makes on the real code is compared, by node identity, with an independently '
    'written set-algebra reference semantics evaluated on a snapshot of the same bs4 tree; ~10^6 (quick) to ~10^7 '
    '(thorough) calls incl. every tree of <=3/4 nodes x a bounded selector grammar. Held-on-observed, not a proof: '
    'soundness/completeness over all trees x selectors can only be sampled, and the small scope is where '
    'combinator/structural bugs show.',
    'Trusted: the reference (vlib/refsel.py), the snapshotter, bs4 public attributes; :root only on single-rooted '
    'documents; ASCII-only case folding in generated values.')
reg('C02', 'runtime monitoring: arithmetic oracle over an exhaustively executed (A,B) x sibling-sequence space',
    'Every (A,B) in a square, in several spellings, on every a/b sibling sequence up to a length, four interleavings '
    'of non-element nodes and four placements is executed through compile/select/match of the real code and '
    'compared with the arithmetic definition (exists n>=0: A*n+B = position); exhaustive for that bounded space, '
    'sampled beyond (|A|,|B| <= 10^4).',
    'Trusted: position/arith reference in vlib/refsel.py; spellings limited to the CSS An+B microsyntax.')
reg('C03', 'runtime monitoring: API-boundary event log checked offline against a reference relation and entry-point agreement laws',
    'Every return of the six compiled-object methods and six module-level functions (positional and keyword '
    'namespaces/flags/custom, all limit classes, document and element targets, mixed iterables) is recorded at the '
    'API boundary and judged by an offline checker: order/identity against the reference relation with the call '
    'target as scope, and agreement between entry points. ~10^6 recorded calls per quick run.',
    'Trusted: vlib/refsel.py as the relation; namespaces only exercised on namespace-aware documents; DEBUG output '
    'on stdout taken as the observable of flags forwarding.')
reg('C04', 'runtime monitoring: history monitors (pristine-twin differential, select-vs-match, tree-mutation tripwire) plus source-free failpoints (sys.monitoring LINE events raising inside the library)',
    'Each call of generated query histories on one document is judged by three monitors at the API boundary: same '
    'answer as on a pristine twin after purge(), select membership equals per-element match, and an identical '
    'structural fingerprint of the tree (incl. attribute value types and identities) before and after, with bs4 '
    'mutators trapped during the call. Histories are biased to the memoising pseudo-classes and to twin subtrees. '
    'Fault histories: a call is cut short by an exception injected at a random line inside soupsieve (or an early-closed '
    'iterator, a raising iterable, a syntax error in a later alternative); every later ordinary call and 25 whole-document '
    'canaries must answer as before the fault and the tree must be unchanged.',
    'Trusted: re-materialising the same recipe yields an equal pristine document; fingerprint covers public bs4 state.')
reg('C05', 'runtime monitoring: metamorphic law monitor over identity sets returned by the real select()',
    'Nine to thirteen Boolean-algebra laws (union, :is union in both orders, complement, list complement, '
    'intersection, :where/:matches = :is, monotonicity, and the same with the default namespace neutralised by *|*) '
    'are evaluated on the results the real API returns for random selector triples from the whole grammar, on seven '
    'document kinds and five namespace maps. No reference is involved, so every pseudo-class is in scope.',
    'Trusted: only set arithmetic on returned node identities; U taken from select("*") / select("*|*").')
reg('C06', 'runtime monitoring: exception-type sanitizer at the compile() boundary under coverage-guided mutational fuzzing',
    'Every compile() call of a coverage-guided (sys.monitoring line novelty + exception-site novelty) mutational '
    'fuzzer is wrapped by an exception sanitizer that accepts only the documented outcomes; ~5*10^5 patterns per '
    'quick run plus random custom maps and namespace maps; violations are shrunk by span deletion keeping the same '
    'exception type and site.',
    'Trusted: the list of documented outcomes in ASSUMPTIONS (RecursionError only at nesting >= 40, nesting = '
    'parentheses + combinator chain/3); CPU-budget exhaustion is handed to C07, not judged.')
reg('C07', 'runtime monitoring: CPU-time budget and growth-ratio monitor over synthesised pumped input families',
    'Bounded restatement of "polynomial": for ~2*10^5 pumped families derived from every truncation of ~90 valid '
    'constructs (and ~2.7k document-value families) the real compile()/match() is timed in CPU seconds under '
    'ITIMER_VIRTUAL: < 2 s at <= 64 characters, growth <= 32x per doubling once >= 10 ms, never the 20 s budget up to '
    '2k/8k characters (16k/128k for document data). Exponential regex backtracking shows as orders of magnitude, '
    'independent of machine load.',
    'Trusted: time.thread_time()/ITIMER_VIRTUAL as cost measure; families derivable from valid constructs only; '
    'sub-exponential super-polynomial growth below the ratio threshold is out of reach.')
reg('C08', 'runtime monitoring: exception sanitizer + CPU/step budgets at the query API boundary on hostile trees',
    'Every query entry point (module level and compiled) is called on generated hostile HTML/XML trees (malformed, huge '
    'and correlated type/min/max/value/dir/lang/... values, list-valued attributes, odd values on id/class/title/data-*, '
    'detached and never-attached elements, foreign namespaces, non-Tag targets) inside an exception sanitizer: any '
    'escaping exception other than TypeError for a non-Tag target, a 20 s CPU budget or (10% sample) a 5*10^6 line '
    'budget is a violation. ~4*10^5 calls per quick run.',
    'Trusted: the value-shape domain in ASSUMPTIONS; termination restated as CPU/step budgets.')
reg('C09', 'runtime monitoring: metamorphic respelling monitor (IR equality + result equality of the real compile/select)',
    'Valid selectors of a broad grammar are rendered canonically and respelled at every token slot by every '
    'applicable lexical rule (whitespace/comment runs, hex and character escapes incl. in pseudo-class names, quote '
    'style or bare identifier, letter case), singly and in random combinations; the real compile() must return an '
    'equal selector structure and the same elements on two probe documents. ~2.5*10^5 effective respellings per quick run.',
    'Trusted: the respeller stays inside the rewrite rules the statement lists (domain decisions in DESIGN.md section 3: '
    'literal :-- prefix of custom names, no lone-CR escape terminator, escapes not applied to An+B keywords/of/ltr/rtl/flags).')
reg('C10', 'runtime monitoring: round-trip oracle through API-built elements, exhaustive over code points (thorough)',
    'For every tried string the real escape() output is fed back to the real parser in five selector forms and must '
    'select exactly the API-built target element among decoys that differ in one character, case, prefix or escaping; '
    'quick: every code point U+0000-U+2FFF, surrogates, plane boundaries and samples in four positions; thorough: every '
    'code point U+0000-U+10FFFF; plus random hostile strings.',
    'Trusted: bs4 stores arbitrary strings as id/class/attribute values unchanged; NUL maps to U+FFFD as the statement says.')
reg('C11', 'runtime monitoring: reference-model oracle per document kind over seven materialisations of one logical tree',
    'The same generated tree (ASCII and non-ASCII cased tag/attribute names, type/title/data-* values) is materialised '
    'as HTML by three parsers and the bs4 API, as XML (parsed and API-built) and as XHTML; every select() with '
    'case-variant selectors (with/without i/s) is compared with the reference case rules evaluated on a snapshot of '
    'that very tree; every HTML-only pseudo-class is run on non-XHTML XML documents (incl. XHTML-namespaced '
    'descendants under a foreign root) and must select nothing.',
    'Trusted: vlib/refsel.py case rules; ASCII-only folding in generated i/type value comparisons.')
reg('C12', 'runtime monitoring: reference-model oracle for namespace rules on namespace-aware documents x caller prefix maps',
    'Generated XML documents (default/prefixed/redeclared/undeclared namespaces on elements and attributes; parsed and '
    'API-built) and html5lib documents with SVG/MathML/xlink are queried with every namespace selector form under ten '
    'caller maps each (faithful, swapped, partial, foreign, with default, default = other/empty); every select() is '
    'compared with the reference namespace rules evaluated on a snapshot of the same tree with the same map.',
    'Trusted: vlib/refsel.py m_tag/attr_value; prefixes never share a URI with the in-scope default namespace (bs4 then '
    'reports the attribute under a bare name); non-subject type-less compounds under a default namespace are unspecified.')
reg('C13', 'runtime monitoring: independent RFC 4647 filter + language-determination reference, exhaustive (range, tag) alphabet',
    'Every (range, tag) pair over a small subtag alphabet (ranges <= 3/4 subtags incl. wildcards, tags <= 4/5 subtags, '
    'the empty range and tag; quoted, escaped and list spellings; lang and xml:lang) is decided by the real match() '
    'and compared with an own implementation of RFC 4647 3.3.2 plus the CSS special cases; generated HTML/XHTML/XML/'
    'iframe documents sweep where the language comes from (ancestor chain, lang="", <meta> pragma variants).',
    'Trusted: vlib/reflang.py; the pragma is compared only for whole non-XML HTML documents (elsewhere unspecified).')
reg('C14', 'runtime monitoring: controlled-schedule monitor (sys.monitoring token-passing scheduler) + free-running stress',
    'Threads run the real compile/select/match/filter/closest under a deterministic scheduler that preempts at chosen '
    'statements inside soupsieve: every single-preemption point of both orders for each job pair (quick: <= 350 points per '
    'order), random 2-6-preemption schedules with 2-4 threads, and a setswitchinterval(1e-6) stress baseline; each '
    "thread's result, the cache content afterwards and a sequential compile afterwards are compared with the sequential "
    'reference. Custom maps are fresh per schedule so that nothing cached earlier can hide a window.',
    'Trusted: statement-granularity preemption; C-level atomicity of re/lru_cache; GIL build.')
reg('C15', 'runtime monitoring: structure walker, value-law monitor and identity ledger over compile/purge histories',
    'For ~10^4 compiled objects per quick run every reachable node is attacked with setattr/delattr/new attributes and '
    'hashed; equality/hash laws are checked against objects compiled from equal arguments (other dict order/type) and '
    'from arguments differing in exactly one of namespaces/custom/flags; pickle/copy/deepcopy must be equal and select '
    'the same; caller dicts must not be aliased; compile(compiled) must be the identity and reject extra arguments; '
    'compile/purge histories over up to 900 keys are checked with an identity ledger (<= 500 identical survivors, none '
    'after purge, every result equal to a fresh parse and carrying the requested arguments).',
    'Trusted: the documented bound of 500; equality of arguments as defined in ASSUMPTIONS; private attributes not attacked.')
reg('C16', 'runtime monitoring: fresh-interpreter monitor with audit hooks, warning recorder and state diff per import sequence',
    'Every import sequence of length <= 2 (quick, plus 350 sampled of length 3) / <= 3 (thorough) over twelve import forms of '
    'bs4 and soupsieve runs in its own interpreter with sys.addaudithook, a warnings recorder and a before/after state '
    'comparison installed before the first import; exit status, silence, absence of side-effect events and equality of '
    'BeautifulSoup.select / soupsieve.select answers across all orders (incl. comment/doctype/text-sensitive selectors) '
    'are the oracle.',
    'Trusted: -B and PYTHONPATH=tree under test in the child; answers compared as (name, id) lists.')
reg('C17', 'runtime monitoring: law monitor + reference definitions for HTML state pseudo-classes, known findings by defect-model switch',
    'On ~1.4*10^4 generated form documents per quick run (five materialisations incl. XHTML, nested forms, iframes, radio '
    'groups, bidi text) the sets returned by the real select() for 17 state pseudo-classes must satisfy the partition/'
    'coverage laws of the statement and equal independent definitions (first submit button per form, radio groups, '
    'placeholder rule, range coverage via an own calendar), within the element\'s own document; select() membership must '
    'equal per-element match().  Two open findings are recognised only when the observed sets equal the reference '
    'prediction with the finding\'s switch on.',
    'Trusted: vlib/refhtml.py definitions and calendar; unspecified corners listed in ASSUMPTIONS are not compared.')
reg('C18', 'runtime monitoring: independent-calendar oracle observed through :in-range/:out-of-range, exhaustive year sweep',
    'Validity of every week {00,01,52,53,54} of every year 1..12000, of date/month strings on swept years, of all times, of '
    'years with 1-20 digits, of one-character-off shapes and 40 number spellings is observed through the real '
    ':in-range/:out-of-range on API-built inputs and compared with an own calendar (no datetime); ordering is checked on '
    'random (min, max, value) triples per type incl. equal bounds and wrapped time ranges.  The open week-53 finding is '
    'recognised only when the observation equals the calendar with that one switch on.',
    'Trusted: vlib/refhtml.py calendar (cross-checked against datetime for years 1..9999 in tools/selfcheck.py); only the '
    'string shapes the statement enumerates are treated as valid.')
reg('C19', 'runtime monitoring: reference text-content oracle on tree snapshots with all seven node kinds interleaved',
    'Trees interleaving text, blank text, comments, CDATA, processing instructions, doctypes and declarations with '
    'elements at every depth (API-built HTML/XML and four parsers, iframes carrying markup) are queried with '
    ':-soup-contains / -own / :contains / :empty; needles are cut from the real concatenation (across node boundaries, '
    'into comment/CDATA text) or are empty/hostile; every select() is compared with the reference text content '
    'computed on a snapshot of the same tree.',
    'Trusted: the reference text rules in props/C19.py (node kinds by bs4 class, iframe cut for HTML documents).')
reg('C20', 'runtime monitoring: position-formula oracle over every offset, DEBUG differential, printer CPU budget',
    'SelectorSyntaxError is constructed for every offset 0..len(pattern) of generated multi-line patterns (\\n, \\r\\n, \\r, '
    'empty lines, trailing breaks) and raised by compile() on damaged multi-line selectors (offset captured by a passive '
    'probe on get_pattern_context); line, column, context lines and caret must follow the formula of the statement. '
    'compile(p, DEBUG) must equal compile(p) in structure, error and results. pretty() must return within a CPU budget '
    'and equal repr() up to whitespace outside string literals.',
    'Trusted: formula() in props/C20.py; offsets inside a CRLF pair unspecified; context layout as in ASSUMPTIONS.')
