#!/venv/bin/python
"""Derive seeded/<id>/meta.json fields needs_to_manifest / what_was_run from the sub-agent's notes.

usage: tools/fill_meta.py <letter for the agent's mutant a> <letter for mutant b>     e.g.  tools/fill_meta.py g h
"""
import json
import re
import sys

la, lb = sys.argv[1], sys.argv[2]
RUN = ("tools/seed_mutant.py (fresh scratch worktree: demo exits 0 clean / patch applies / 381 tests pass with it / demo exits 1 with it), "
       "then tools/run_seeded.py (scratch copy of /repo + patch, VERIF_REPO pointing at it, quick tier of the property's check)")
for i in range(1, 21):
    c = 'C%02d' % i
    metas = {}
    for l in (la, lb):
        try:
            metas[l] = json.load(open('/verif/seeded/%s%s/meta.json' % (c, l)))
        except FileNotFoundError:
            pass
    if not metas:
        continue
    notes = max((m.get('notes', '') for m in metas.values()), key=len)
    secs = {}
    for p in re.split(r'(?m)^##\s+', notes)[1:]:
        m = re.match(r'(?i)mutant\s+([ab])\b', p)
        if m:
            secs[la if m.group(1).lower() == 'a' else lb] = p
    for l, meta in metas.items():
        sec = secs.get(l, '')
        head = sec.split('\n', 1)[0].strip()
        m = re.search(r'(?is)(\*\*)?Trigger.*?(?=\n\s*\n(?![-*\s])|\Z)', sec)
        trig = m.group(0) if m else ''
        if len(trig) < 60:
            trig = sec[len(head):].strip()[:700]
        trig = re.sub(r'\s+', ' ', trig).replace('**', '')
        meta['needs_to_manifest'] = ('%s. %s' % (head, trig))[:1100]
        meta['notes'] = notes
        meta['what_was_run'] = RUN
        json.dump(meta, open('/verif/seeded/%s%s/meta.json' % (c, l), 'w'), indent=1, ensure_ascii=False)
        print(c + l, '|', meta['needs_to_manifest'][:160])
