#!/bin/bash
# usage: tools/try_mutant.sh <patch-file | revert:<commit>> <Cxx> [more check args]
# Copies /repo to a scratch dir, applies the patch (or reverts the commit), runs the check there, removes the copy.
set -u
spec="$1"; shift
pid="$1"; shift
d=$(mktemp -d /tmp/mut.XXXXXX)
git -C /repo archive HEAD | tar -x -C "$d"
cd "$d" && git init -q . >/dev/null 2>&1
if [[ "$spec" == revert:* ]]; then
  git -C /repo show "${spec#revert:}" -- soupsieve | (cd "$d" && patch -R -p1 -s) || { echo "revert failed"; rm -rf "$d"; exit 3; }
else
  (cd "$d" && patch -p1 -s < "$spec") || { echo "patch failed"; rm -rf "$d"; exit 3; }
fi
cd /verif
VERIF_REPO="$d" VERIF_EVIDENCE_DIR="$d/evidence" ./check "$pid" "$@"
rc=$?
rm -rf "$d"
echo "exit=$rc"
exit $rc
