#!/venv/bin/python
"""Run each hand-made mutant of selftest/*.diff against its property's quick check (scratch copy, VERIF_REPO)."""
import json
import os
import shutil
import subprocess
import sys
import tempfile
import time

HERE = os.path.dirname(os.path.dirname(os.path.abspath(__file__)))
sd = os.path.join(HERE, 'selftest')
names = sys.argv[1:] or sorted(f[:-5] for f in os.listdir(sd) if f.endswith('.diff'))
resf = os.path.join(sd, 'RESULTS.json')
results = json.load(open(resf)) if os.path.exists(resf) else {}
for n in names:
    txt = os.path.join(sd, n + '.txt')
    prop = open(txt).read().split()[1] if os.path.exists(txt) else n[:3]
    d = tempfile.mkdtemp(prefix='mut.', dir='/tmp')
    try:
        subprocess.run('git -C /repo archive HEAD | tar -x -C %s' % d, shell=True, check=True)
        r = subprocess.run(['patch', '-p1', '-s', '-i', os.path.join(sd, n + '.diff')], cwd=d, capture_output=True, text=True)
        if r.returncode:
            print(n, 'PATCH DOES NOT APPLY')
            results[n] = 'patch does not apply'
            continue
        t0 = time.time()
        e = dict(os.environ, VERIF_REPO=d, VERIF_EVIDENCE_DIR=os.path.join(d, 'evidence'))
        r = subprocess.run([os.path.join(HERE, 'check'), prop, '--tier', 'quick'], cwd=HERE, env=e, capture_output=True, text=True)
        verdict = {0: 'not caught', 1: 'caught', 2: 'inconclusive'}.get(r.returncode, 'error %d' % r.returncode)
        first = [l for l in r.stdout.splitlines() if l.startswith('VIOLATION')][:1]
        results[n] = verdict
        print('%-40s %-4s %-12s %4.0fs %s' % (n, prop, verdict, time.time() - t0, first[0][40:200] if first else ''))
    finally:
        shutil.rmtree(d, ignore_errors=True)
    json.dump(results, open(resf, 'w'), indent=1, sort_keys=True)
