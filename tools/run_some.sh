#!/bin/bash
# usage: tools/run_some.sh <tier> <seed> Cxx [Cyy ...]   - like run_all.sh for a subset (long thorough runs are split in two halves)
tier=$1; seed=$2; shift 2
cd "$(dirname "$0")/.."
for c in "$@"; do
  s=$(date +%s)
  out=$(./check $c --tier $tier --seed $seed 2>&1); rc=$?
  echo "$c tier=$tier seed=$seed exit=$rc $(( $(date +%s) - s ))s $(echo "$out" | grep -E 'tier=' | cut -c1-150)"
  echo "$out" | grep -E '^(VIOLATION|INCONCLUSIVE)' | head -5 | cut -c1-300
done
