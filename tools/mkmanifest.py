#!/venv/bin/python
"""Regenerate MANIFEST.json from the table below (keeps it schema-valid at all times)."""
import json
import os
import sys

HERE = os.path.dirname(os.path.dirname(os.path.abspath(__file__)))
sys.path.insert(0, HERE)

# id -> (technique, level text, level note)
CHECKS = {}
NOT_YET = {}


def reg(pid, technique, text, note):
    CHECKS[pid] = (technique, text, note)


exec(open(os.path.join(HERE, 'tools', 'manifest_table.py')).read())

props = [json.loads(l)['id'] for l in open(os.path.join(HERE, 'properties.jsonl'))]
m = {
    'version': 1,
    'setup_cmd': '/venv/bin/python tools/setup_check.py',
    'hooks': {
        'guard': 'SOUPSIEVE_VERIF',
        'enable': 'no source hooks: every monitor is installed by the harness at run time (attribute wrappers, '
                  'sys.monitoring, sys.addaudithook, signal timers) on the soupsieve imported from /repo; '
                  'SOUPSIEVE_VERIF=1 only switches the API recorder on inside the pytest-plugin workload',
        'baseline_off_cmd': 'cd /repo && /venv/bin/python -m pytest -ra -q -p no:cacheprovider --timeout=900 '
                            '--continue-on-collection-errors',
        'source_commits': [],
        'add_only': True,
    },
    'engines': [
        {'name': 'check', 'path': 'check', 'serves_properties': sorted(CHECKS),
         'kind_free_text': 'runtime monitoring: worker processes import the working tree of /repo, drive generated '
                           'workloads through the public API and judge every observed call with an oracle '
                           '(reference semantics, metamorphic laws, exception/CPU-budget sanitizers, controlled '
                           'thread schedules, fresh-interpreter audit hooks)'},
    ],
    'checks': [],
    'notes': 'See DESIGN.md. Exit 0 = held on everything observed, 1 = VIOLATION, 2 = INCONCLUSIVE (a deciding '
             'monitor was not reached, never folded into held). KNOWN_FINDINGS.txt lists open findings and fixes.',
    'not_applicable': [],
}
for pid in props:
    if pid in CHECKS:
        tech, text, note = CHECKS[pid]
        m['checks'].append({
            'property_id': pid,
            'quick_cmd': './check %s --tier quick' % pid,
            'thorough_cmd': './check %s --tier thorough' % pid,
            'evidence_file': 'evidence/%s.json' % pid,
            'replay_cmd_template': './check %s --replay {path}' % pid,
            'engine': 'check',
            'level_claimed': {'category': 'exploration', 'text': text, 'design_ref': 'DESIGN.md section 4, %s' % pid},
            'level_note': note,
            'technique': tech,
        })
    else:
        m['not_applicable'].append({'property_id': pid, 'reason': NOT_YET.get(pid, 'check not built yet (planned, see DESIGN.md section 4)')})
with open(os.path.join(HERE, 'MANIFEST.json'), 'w') as f:
    json.dump(m, f, indent=1)
try:
    import jsonschema
    jsonschema.validate(m, json.load(open('/root/.vp/MANIFEST.schema.json')))
    print('MANIFEST.json valid,', len(m['checks']), 'checks,', len(m['not_applicable']), 'not claimed')
except ImportError:
    print('MANIFEST.json written (jsonschema not importable here)')
