#!/venv/bin/python
"""Create one scratch worktree of /repo per property plus the prompt given to a fresh sub-agent (property text only).

usage: tools/mk_mutant_prompts.py <dir outside /repo and /verif, e.g. /tmp/wt4> [hint-set 0|1|2|3|4]
The sub-agent gets: the property's title/statement/quantifier and its own worktree - nothing from /verif.
Afterwards: tools/seed_mutant.py Cxx a|b <dir>/Cxx/_out <store letter>, then `git -C /repo worktree remove --force <dir>/Cxx`.
"""
import json
import os
import subprocess
import sys

root = sys.argv[1]
hint = int(sys.argv[2]) if len(sys.argv) > 2 else 0
assert not root.startswith(('/repo', '/verif'))
os.makedirs(root, exist_ok=True)

HINTS = ['''       - a code path that only ONE entry point takes (closest, filter with an iterable, select_one, limit, iselect
         consumed lazily, compiled object vs module function, BeautifulSoup's own .select/.css wrappers);
       - a particular ORDER of operations or of elements (second call, second alternative, second sibling, last
         child, element evaluated after another one matched);
       - a particular parser's tree shape (what lxml/html5lib/html.parser do differently), attribute value types,
         Unicode edge cases (casing, normalisation, astral characters, combining marks);
       - a boundary of a numeric or length parameter (cache size, limits, digit counts, exactly-at-the-bound);
       - an interaction between TWO features of the library that are implemented at different places.''',
         '''       - state that survives between calls or objects: module-level caches, lru_cache, the per-match caches of a
         CSSMatch object, a compiled object that is re-used, pickled, deep-copied, hashed or compared;
       - arguments most callers leave at their default: flags (DEBUG), namespaces given as None / {} / a mapping
         subclass, custom selectors (and custom selectors that use other custom selectors), limit values 0 / 1 /
         negative, a Tag versus the BeautifulSoup object as the scope, an element that is not attached to any soup;
       - what differs between syntactically different ways of writing the same thing: nesting depth two or three
         (:is(:not(:has(...)))), a relative selector inside :has() with each combinator, `of S` lists, selector lists
         with empty or invalid members, quirks of white space / comments / escapes / quotes next to a certain token;
       - multi-valued attributes (class, rel, headers ... are lists in bs4 for HTML, strings in XML), duplicated
         attributes, attribute names with prefixes, namespace declarations that change mid-tree;
       - documents with more than one top-level node, text or comments or a doctype before the root, an iframe
         whose content is a whole nested document, elements after </html>;
       - a behaviour that only shows on the SECOND element/alternative/call because the first one warms something.''',
         '''       - the way the object under test is obtained or passed: a pattern that is a str subclass or an already
         compiled object handed to select()/match()/compile(), a Tag subclass, a soup made with
         multi_valued_attributes=None or a custom element_classes map, copy.copy(tag), soup.new_tag() never attached,
         an element moved from one soup to another, iterables given to filter() (generators, lists with non-Tag
         nodes), results of iselect() consumed partly, limit= combined with several alternatives;
       - scale: hundreds of nesting levels or thousands of siblings, a cache that reaches its bound and evicts
         (the compile cache holds 500 entries), the 513th distinct string, values of hundreds of characters;
       - evaluation order inside ONE selector: right-to-left matching across combinators, a compound that is tried
         on an ancestor AFTER it failed on a nearer one, :has() inside :not() inside :is(), sibling combinators
         whose left side is a list, the same pseudo-class twice in one compound, `of S` whose S uses :has();
       - document facts that sit somewhere unusual: <base>/<meta> not in <head>, two <head> or <body> elements,
         `lang`/`dir`/`xml:lang` on the root only or on an iframe, forms inside tables (parsers move them), <template>,
         <select> with nested optgroups, attributes given twice with different case, entity references in values;
       - text-level corners of the grammar: a comment or escape directly against an unusual neighbour token
         (`|`, `*`, `&`, `::`, `@`, `!=`), CRLF inside strings, NUL and surrogates, `--` and `-` prefixes, numbers
         with signs and leading zeros, upper-case keywords, nothing but white space;
       - anything where the library trusts an invariant of its input that a mutant can quietly stop maintaining.''',
         '''       ... and assume that it ALSO already varies all of the following, so none of them is a hiding place any more:
         every entry point and bs4 wrapper (select/select_one/iselect/match/filter/closest, limit, lazily consumed
         iterators, compiled / pickled / deep-copied objects, str subclasses, bool flags); trees from five builders
         plus elements moved between them, detached and never-attached elements, twins that compare equal, mixed-case
         names and attribute keys made through the API, list / bytes / None / number attribute values, several
         top-level nodes, iframes (also nested, foreign-namespace look-alikes), XHTML through the XML parser;
         namespace maps with default / colliding / `html` prefixes, one dict object re-used and refilled, custom
         selectors (nested, cyclic, diamond shaped, case variants); respellings of every token (escapes of upper- and
         lower-case letters, comments with value-like words, CRLF, line continuations, quotes); forgiving lists with
         empty / dangling members; An+B up to 10^30; non-ASCII digits; values of thousands of characters; cache
         eviction, purge, transient failures, threads pre-empted at every line, fresh interpreters in every import
         order; user-written lists equal to the library's internal ones; the same pseudo-class asked twice per call.
       So look for what is left: a *semantic* slip rather than a structural one - a rule of the CSS / HTML
       specifications that the code implements in one particular place and that can be bent slightly (which
       elements count, which attribute decides, which ancestor stops a walk, which comparison is case-folded, what
       happens at exactly zero / one / the last item), such that every call path stays self-consistent and only
       the *meaning* is off for a narrow class of documents.''',
         '''       ... and assume that it ALSO already varies every entry point and wrapper, trees from several builders
         (grafted, detached, twins, mixed-case names, odd attribute value types, iframes, XHTML-as-XML), namespace
         maps and custom-selector tables of every shape, respellings of every token, huge numbers, non-ASCII
         digits and case pairs, cache eviction, threads pre-empted at every line, and fresh interpreters.
       This time the change must need one of the following to manifest - pick the two that suit this property:
       - TWO COOPERATING EDITS at different sites (two functions, or parser + matcher, or __init__ + css_types) that
         each look harmless - even correct - when read alone and that only together bend the behaviour (e.g. one
         site starts to rely on an invariant the other quietly stops maintaining; a value is normalised in one
         place and compared un-normalised in the other; a flag is set in one branch and consumed in another);
       - a MULTI-STEP SEQUENCE of public calls on the same objects: the third or later call in a particular order
         (e.g. match then closest then select on one compiled object; compile with flags, then without, then with
         again; purge between two uses of a kept compiled object; the same element asked through two different
         compiled objects that share sub-structures through the parser's caches; a tree edited BETWEEN two calls
         in a way that invalidates something remembered);
       - a FAULT AT A PARTICULAR POINT: an exception raised half way (a SelectorSyntaxError in the second
         alternative, a RecursionError in a deep selector, a KeyboardInterrupt or a caller's iterator raising during
         iselect/filter, a generator closed early) after which the NEXT, perfectly ordinary call misbehaves;
       - an input class at the rim of the specification this property talks about: read the CSS Selectors 4 /
         HTML living standard rule that this property encodes and bend the least-known clause of it (which elements
         are exempt, which attribute wins, where a walk stops, what happens with zero / one / the last item,
         what is ASCII-case-insensitive and what is not, what is compared by code point and what by token).
       Each call path must stay self-consistent (the entry points must still agree with each other), so that only a
       monitor that knows the *meaning* - or one that watches state across calls - can notice.''']

TMPL = '''You are helping test a verification tool by playing the role of a careless-but-plausible developer.

You have your own scratch git worktree of the Python library "soupsieve" (CSS selectors for BeautifulSoup) at
  {WT}
Work ONLY inside that directory. Do not read or touch /repo or /verif or any other directory under /tmp. Use the
interpreter /venv/bin/python. Always run commands from the worktree root with PYTHONPATH set to it, e.g.
  cd {WT} && PYTHONPATH={WT} /venv/bin/python -m pytest -q -p no:cacheprovider
(the 381 tests take ~5 s and must all pass). There is no network.

Here is a semantic property that the library is supposed to satisfy:

----------------------------------------------------------------------
{PROP}
----------------------------------------------------------------------

Your task: produce TWO different, independent source changes ("mutant a" and "mutant b") to files under
{WT}/soupsieve/ such that, for each one separately:
  1. the library still imports and the WHOLE existing test suite still passes (all 381 tests) with the change;
  2. the change BREAKS the property above (a real behavioural violation observable through the public API:
     soupsieve.compile/select/select_one/iselect/match/filter/closest/escape/purge, compiled-object methods, or
     BeautifulSoup(...).select());
  3. the violation is VERY HARD TO STUMBLE UPON. Assume that a test generator already exercises this property with
     many random documents and selectors, including the obvious corner cases (empty values, unusual characters,
     whitespace-free markup, several parsers, detached elements, namespaces, iframes, big numbers). Look for what such
     a generator is still likely to keep constant or never combine:
{HINTS}
     Think of realistic regressions: an "optimisation" (early exit, memoisation, fast path, hoisting something out of
     a loop), a refactoring slip, an off-by-one, a wrong default, a cache keyed on too little, a condition that is
     subtly too broad or too narrow, a regular expression "simplification". Not sabotage like `if x == 'magic'`.
  4. {SITES}

Read the relevant source first so that the change is plausible where it is made. Keep each change small
(a few lines).

For each mutant write, into the directory {WT}/_out/ (create it):
  - mutant_a.diff / mutant_b.diff : output of `git diff` for that change alone (relative to the clean worktree HEAD),
    applicable with `git apply` from the repository root;
  - demo_a.py / demo_b.py : a small self-contained program, run as
        cd {WT} && PYTHONPATH={WT} /venv/bin/python _out/demo_a.py
    that exits with status 1 (printing what went wrong) when the mutant is applied and status 0 on the clean
    tree. It must import soupsieve BEFORE bs4 unless the import order is the point of the demonstration.
  - notes.md : for each mutant, under a heading "## Mutant a - <file>, <function>" / "## Mutant b - ...": what was
    changed, why it breaks the property, and a paragraph starting "Trigger (all needed):" saying exactly what is needed
    for the violation to manifest.

Procedure to follow for each mutant: apply your edit; run the full test suite (must be 381 passed); run the demo
(must exit 1); save `git diff` to the .diff file; then `git checkout -- soupsieve` to restore the clean tree and
run the demo again (must exit 0). Leave the worktree CLEAN at the end (only the untracked _out/ directory added).
Verify both .diff files apply cleanly to the clean tree with `git apply --check`.

Finish with a short report: for each mutant one line with the trigger, and confirmation of the four checks
(tests pass with mutant, demo exits 1 with mutant, demo exits 0 without, diff applies cleanly).
'''
SITES = ["mutant a must change soupsieve/css_match.py and mutant b a different file (css_parser.py, css_types.py, util.py, pretty.py or "
         "__init__.py), or - if the property only concerns one file - two clearly different functions of it.",
         "the two mutants must attack different mechanisms in different functions, and neither may be the single most obvious line for "
         "this property."]
for i, line in enumerate(open('/verif/properties.jsonl')):
    d = json.loads(line)
    pid = d['id']
    wt = os.path.join(root, pid)
    if not os.path.exists(wt):
        subprocess.run(['git', '-C', '/repo', 'worktree', 'add', '-q', '--detach', wt, 'HEAD'], check=True)
    prop = 'Title: %s\n\nStatement: %s\n\nQuantifier: %s\n' % (d['title'], d['statement'], d['quantifier']['text'])
    open(os.path.join(root, pid + '.prompt.txt'), 'w').write(
        TMPL.replace('{WT}', wt).replace('{PROP}', prop).replace('{HINTS}', HINTS[hint]).replace('{SITES}', SITES[(i + hint) % 2]))
print('prepared', root)
