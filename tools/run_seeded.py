#!/venv/bin/python
"""Run checks against seeded mutants (scratch copy of /repo + patch, VERIF_REPO pointing at it).

usage: tools/run_seeded.py [--tier quick] [--check Cxx[,Cyy]] [ids...]      (default: every seeded/<id> with its own property)
Writes seeded/RESULTS.json: {id: {check: 'caught'|'MISSED'|'inconclusive', ...}}.
"""
import json
import os
import shutil
import subprocess
import sys
import tempfile
import time

HERE = os.path.dirname(os.path.dirname(os.path.abspath(__file__)))
args = sys.argv[1:]
tier = 'quick'
checks = None
ids = []
while args:
    a = args.pop(0)
    if a == '--tier':
        tier = args.pop(0)
    elif a == '--check':
        checks = args.pop(0).split(',')
    else:
        ids.append(a)
sd = os.path.join(HERE, 'seeded')
if not ids:
    ids = sorted(d for d in os.listdir(sd) if os.path.isdir(os.path.join(sd, d)))
resf = os.environ.get('SEEDED_RESULTS') or os.path.join(sd, 'RESULTS.json')
results = json.load(open(resf)) if os.path.exists(resf) else {}
for mid in ids:
    meta = json.load(open(os.path.join(sd, mid, 'meta.json')))
    if meta.get('retired'):
        print(mid, 'retired:', meta['retired'][:150])
        results[mid] = {'retired': meta['retired']}
        continue
    todo = checks or ([meta['breaks_property']] + meta.get('cross_checks', []))
    d = tempfile.mkdtemp(prefix='mut.', dir='/tmp')
    try:
        subprocess.run('git -C /repo archive HEAD | tar -x -C %s' % d, shell=True, check=True)
        r = subprocess.run(['patch', '-p1', '-s', '-i', os.path.join(sd, mid, 'patch.diff')], cwd=d, capture_output=True, text=True)
        if r.returncode:
            print(mid, 'PATCH DOES NOT APPLY', r.stdout[-300:])
            results.setdefault(mid, {})['patch'] = 'does not apply to current HEAD'
            continue
        for c in todo:
            t0 = time.time()
            e = dict(os.environ, VERIF_REPO=d, VERIF_EVIDENCE_DIR=os.path.join(d, 'evidence'))
            r = subprocess.run([os.path.join(HERE, 'check'), c, '--tier', tier], cwd=HERE, env=e, capture_output=True, text=True)
            first = [l for l in r.stdout.splitlines() if l.startswith('VIOLATION')][:1]
            verdict = {0: 'MISSED', 1: 'caught', 2: 'inconclusive'}.get(r.returncode, 'error %d' % r.returncode)
            if verdict == 'caught' and not first:
                verdict = 'error (exit 1 without a VIOLATION line)'
            results.setdefault(mid, {})[c + ':' + tier] = verdict
            print('%-6s %-4s %-12s %5.0fs  %s' % (mid, c, verdict, time.time() - t0, (first[0][:230] if first else r.stdout.strip().splitlines()[-1][:200] if r.stdout.strip() else r.stderr[-200:])))
    finally:
        shutil.rmtree(d, ignore_errors=True)
    json.dump(results, open(resf, 'w'), indent=1, sort_keys=True)
