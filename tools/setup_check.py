#!/venv/bin/python
"""setup_cmd: nothing to build (pure Python, stdlib + the repository's own interpreter); sanity-check the pieces."""
import os
import sys
HERE = os.path.dirname(os.path.dirname(os.path.abspath(__file__)))
sys.path.insert(0, HERE)
from vlib import env  # noqa: E402
sv = env.setup()
import bs4  # noqa: E402
import lxml  # noqa: E402,F401
import html5lib  # noqa: E402,F401
assert sys.version_info >= (3, 12), 'sys.monitoring needs CPython 3.12'
os.makedirs(os.path.join(HERE, 'evidence', 'replay'), exist_ok=True)
print('setup ok: soupsieve', sv.__version__, 'from', sv.__file__, '| bs4', bs4.__version__)
