#!/venv/bin/python
"""Create hand-made mutants (selftest/<name>.diff) from (file, old, new) edits against /repo HEAD.

Each must still pass the repository's tests (checked here) - otherwise it is not written.
usage: tools/mk_selftest.py [name ...]
"""
import os
import shutil
import subprocess
import sys
import tempfile

HERE = os.path.dirname(os.path.dirname(os.path.abspath(__file__)))
M = 'soupsieve/css_match.py'
P = 'soupsieve/css_parser.py'
T = 'soupsieve/css_types.py'
I = 'soupsieve/__init__.py'
U = 'soupsieve/util.py'
EDITS = {
    # name: (property, [(file, old, new)], note)
    'C01-child-comb-as-descendant': ('C01', [(M, """        elif relation[0].rel_type == REL_CLOSE_PARENT:
            parent = self.get_parent(el, no_iframe=self.iframe_restrict)
            if parent and not self.is_doc(parent):
                found = self.match_selectors(parent, relation)""", """        elif relation[0].rel_type == REL_CLOSE_PARENT:
            parent = self.get_parent(el, no_iframe=self.iframe_restrict)
            if parent and not self.is_doc(parent):
                found = self.match_selectors(parent, relation)
                if not found and self.get_tag(parent) == 'body':
                    parent = self.get_parent(parent)
                    found = bool(parent) and not self.is_doc(parent) and self.match_selectors(parent, relation)""")],
                                     "'>' skips over a body element"),
    'C01-empty-counts-comments': ('C01', [(M, "            elif self.is_content_string(child) and RE_NOT_EMPTY.search(child):",
                                           "            elif self.is_navigable_string(child) and not self.is_cdata(child) and RE_NOT_EMPTY.search(child):")],
                                  ':empty treats comment text as content'),
    'C01-tilde-eq-substring': ('C01', [(P, "(?:(?<=^)|(?<=[ \\t\\r\\n\\f]))%s(?=(?:[ \\t\\r\\n\\f]|$)).*' % value, flags)",
                                        "(?:(?<=^)|(?<=[ \\t\\r\\n\\f-]))%s(?=(?:[ \\t\\r\\n\\f]|$)).*' % value, flags)")],
                               '~= also splits words at dashes'),
    'C02-last-of-type-ignores-ns': ('C02', [(M, """            (self.get_tag(child) == self.get_tag(el)) and
            (self.get_tag_ns(child) == self.get_tag_ns(el))""", """            (self.get_tag(child) == self.get_tag(el))""")], 'of-type ignores namespace'),
    'C03-closest-skips-self-when-root': ('C03', [(M, """        current = self.tag  # type: bs4.Tag | None
        closest = None""", """        current = self.tag  # type: bs4.Tag | None
        if current is self.root and self.get_parent(current) is None:
            current = None
        closest = None""")], 'closest() on a detached root returns None'),
    'C03-filter-uses-descendants': ('C03', [(M, """            tag for tag in self.get_contents(self.tag)
            if isinstance(tag, bs4.Tag) and self.match(tag)""", """            tag for tag in self.get_contents(self.tag)
            if isinstance(tag, bs4.Tag) and (self.match(tag) or (not tag.contents and self.match_selectors(tag, self.selectors)))""")],
                                    'no-op variant; must NOT be caught (control)'),
    'C04-default-cache-across-calls': ('C04', [(M, "        self.cached_default_forms = []  # type: list[tuple[bs4.Tag, bs4.Tag]]",
                                                "        self.cached_default_forms = _DEFAULT_FORMS  # type: list[tuple[bs4.Tag, bs4.Tag]]"),
                                               (M, "class CSSMatch(_DocumentNav):", "_DEFAULT_FORMS = []  # type: list[Any]\n\n\nclass CSSMatch(_DocumentNav):")],
                                       ':default memo shared by all calls (stale after the document changes / ids reused)'),
    'C11-lower-unicode': ('C11', [(U, "        new_string.append(chr(o + 32) if UC_A <= o <= UC_Z else c)", "        new_string.append(c.lower())")], 'Unicode-aware lower'),
    'C12-default-ns-ignored-in-is': ('C12', [(M, "        if tag.prefix is None and (default_namespace is not None and namespace != default_namespace):",
                                              "        if tag.prefix is None and tag.name != '*' and (default_namespace is not None and namespace != default_namespace):")],
                                     "default namespace not applied to the universal selector"),
    'C13-singleton-rule-dropped': ('C13', [(M, "            elif len(s) == 1:\n                match = False\n                continue", "            elif len(s) == 1 and s != 'x':\n                match = False\n                continue")],
                                   "implicit wildcard skips the private-use singleton 'x'"),
    'C15-cache-key-drops-flags': ('C15', [(I, """    return cp._cached_css_compile(
        pattern,
        ct.Namespaces(namespaces) if namespaces is not None else namespaces,
        ct.CustomSelectors(custom) if custom is not None else custom,
        flags
    )""", """    obj = cp._cached_css_compile(
        pattern,
        ct.Namespaces(namespaces) if namespaces is not None else namespaces,
        ct.CustomSelectors(custom) if custom is not None else custom,
        0
    )
    return obj""")], 'flags dropped from the cache key and from the compiled object'),
    'C15-hash-other-function': ('C15', [(T, "        super().__setattr__('_hash', hash(tuple(temp)))", "        super().__setattr__('_hash', hash(tuple(reversed(temp))))")], 'control: another hash function over the same values (equal objects still hash equal) - should NOT be caught'),
    'C15-maxcache-unbounded': ('C15', [(P, "@lru_cache(maxsize=_MAXCACHE)\ndef _cached_css_compile(", "@lru_cache(maxsize=None)\ndef _cached_css_compile(")], 'unbounded cache'),
    'C15-eq-ignores-flags': ('C15', [(T, "            all(getattr(other, key) == getattr(self, key) for key in self.__slots__ if key != '_hash')",
                                      "            all(getattr(other, key) == getattr(self, key) for key in self.__slots__ if key not in ('_hash', 'flags'))")],
                             '__eq__ ignores flags (also Selector.flags!)'),
    'C19-iframe-cut-dropped': ('C19', [(M, "                    content = self.get_text(el, no_iframe=self.is_html)", "                    content = self.get_text(el)")], 'descendant text crosses iframes'),
    'C19-own-text-joined': ('C19', [(M, """                    for c in content:
                        if text in c:
                            found = True
                            break""", """                    if text in ''.join(content):
                        found = True""")], 'own text nodes joined'),
    'C20-col-zero-based-after-first-line': ('C20', [(U, """            indent = '--> '
            offset = (-1 if index > m.start(0) else 0) + 3
            col = index - last + 1""", """            indent = '--> '
            offset = (-1 if index > m.start(0) else 0) + 3
            col = index - last + (1 if current_line == 1 else 0)""")], 'column zero-based on continuation lines'),
    'C14-lower-shared-buffer': ('C14', [(U, """@lru_cache(maxsize=512)
def lower(string: str) -> str:
    \"\"\"Lower.\"\"\"

    new_string = []""", """_BUF = []  # type: list[str]


def lower(string: str) -> str:
    \"\"\"Lower.\"\"\"

    new_string = _BUF
    del new_string[:]""")], 'lower() reuses a module-level buffer (race)'),
}


def main():
    names = sys.argv[1:] or sorted(EDITS)
    os.makedirs(os.path.join(HERE, 'selftest'), exist_ok=True)
    for name in names:
        prop, edits, note = EDITS[name]
        d = tempfile.mkdtemp(prefix='st.', dir='/tmp')
        try:
            subprocess.run('git -C /repo archive HEAD | tar -x -C %s' % d, shell=True, check=True)
            subprocess.run('git init -q . && git add -A >/dev/null && git -c user.email=a@b -c user.name=x commit -qm base', shell=True, cwd=d, check=True)
            ok = True
            for f, old, new in edits:
                s = open(os.path.join(d, f)).read()
                if old not in s:
                    print(name, 'EDIT DOES NOT APPLY in', f)
                    ok = False
                    break
                open(os.path.join(d, f), 'w').write(s.replace(old, new, 1))
            if not ok:
                continue
            r = subprocess.run(['/venv/bin/python', '-m', 'pytest', '-q', '-p', 'no:cacheprovider', '-x'], cwd=d, capture_output=True, text=True,
                               env=dict(os.environ, PYTHONPATH=d))
            passed = '381 passed' in r.stdout
            diff = subprocess.run(['git', 'diff'], cwd=d, capture_output=True, text=True).stdout
            if not passed:
                print(name, 'FAILS THE SUITE:', r.stdout.strip().splitlines()[-1][:100])
                continue
            with open(os.path.join(HERE, 'selftest', name + '.diff'), 'w') as fo:
                fo.write(diff)
            with open(os.path.join(HERE, 'selftest', name + '.txt'), 'w') as fo:
                fo.write('property: %s\n%s\n' % (prop, note))
            print(name, 'written (suite passes)')
        finally:
            shutil.rmtree(d, ignore_errors=True)


if __name__ == '__main__':
    main()
