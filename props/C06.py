"""C06 - compile() accepts or rejects every string with a documented error only.

Monitor: exception sanitizer at the API boundary (type, innermost soupsieve frame) around soupsieve.compile.
Workload: coverage-guided mutational fuzzing with a self-made loop: sys.monitoring LINE events (DISABLE after the
first hit) on css_parser.py/util.py/css_types.py tell which mutants reached new code and join the corpus; new
(exception type, site) pairs count as novelty too.  Deterministic under VERIF_SEED.  Custom maps: random
str -> str dictionaries (bad names, case-colliding names, malformed/empty definitions, cycles, long chains).
"""
import os
import random
import sys

from vlib import monitors, sels
from vlib.runner import sig

ID = 'C06'
LEVEL = 'exploration'
ANCHORS = ['CSSParser.selector_iter', 'CSSParser.parse_selectors', 'css_unescape', 'process_custom',
           'CSSParser.parse_pseudo_class_custom', 'SelectorSyntaxError.__init__', 'CSSParser.parse_pseudo_nth']
RULE = ('coverage-guided mutational fuzzing of compile(pattern) and compile(pattern, custom=map): seeds = rendered ASTs '
        'of every grammar + one pattern per token kind; mutators = truncate at any offset, delete/duplicate/swap '
        'spans, splice two corpus entries, pump a span up to 6000 times, insert from a hostile alphabet (backslash, '
        'hex runs incl. 110000/0/d800, NUL, U+FFFF, lone surrogates, astral characters, CR/FF/LF, quotes, brackets, '
        'comment openers, combinators, | @ :: & :-- --).  Deep-nesting law (implementation-relative recursion budget): a pattern nested 20-260 deep whose compile succeeds must compile again in another spelling / with other arguments / after purge.  Non-trivial = an input that raised or that compiled to a '
        'non-empty selector list after at least one mutation; distinct = distinct input strings among those.')
ASSUMPTIONS = [
    'documented outcomes: a compiled object, SelectorSyntaxError, NotImplementedError only when the pattern (or a custom '
    'definition) contains "@" or "::", KeyError only for custom names equal after ASCII lower-casing, RecursionError '
    'only at nesting depth >= 40 (parentheses or custom-alias chain)',
    'a compile that exhausts its 5 s CPU budget is handed to C07 (counted, reported) and not judged here',
]

HOSTILE = ['\\', '\\0', '\\110000', '\\10ffff', '\\d800', '\\dfff', '\\ffffff', '\\0 ', '\\a', '\\A ', '\\g', '\x00', '￿',
           '\ud800', '\udfff', '\U0001f600', '\r', '\f', '\n', '\r\n', '\t', ' ', '"', "'", '[', ']', '(', ')', '/*', '*/',
           '/', '*', '>', '+', '~', ',', '|', '@', '@P', '::', ':', '&', ':--', '--', '-', '#', '.', '=', '~=', '|=', '^=',
           '$=', '*=', '!=', ' i', ' s', 'n', '2n+1', '-n', 'even', 'odd', ' of ', 'ltr', ':is(', ':not(', ':has(', ':where(',
           ':nth-child(', ':nth-of-type(', ':lang(', ':dir(', ':-soup-contains(', ':contains(', ':current(', ':host(',
           ':host-context(', ':matches(', ':nth-last-child(', ':root', ':scope', '0', '9', '99999999999', 'é', '\x80',
           '\x9f', '\x7f', '\x1f', '$', '!', '%', '^', '`', '{', '}', ';', '<', '?', '\\\n', '\\\r\n', '9' * 4400, '0' * 4400 + '7',
           '\\' + 'f' * 50, 'n+' + '1' * 4400,
           # characters with special Unicode properties (the token patterns are compiled with re.I | re.U)
           '\u0663', '\uff12', '\u0a69', '\u00b2', '\u2160', '\u00a0', '\u2003', '\u3000', '\u0085', '\u2028', '\u212a', '\u017f', '\u0130',
           '\u0131', '\ufb01', '\u1e9e', '\ufeff', '\u200d', '\u0301', '\u2460']
TOKEN_SEEDS = ['a', '*', 'ns|a', '*|a', '|a', '#id', '.cls', '[a]', '[a=b]', '[a="b" i]', "[a='b' s]", '[ns|a~=b]', '[*|a|=b]',
               '[a^=b]', '[a$=b]', '[a*=b]', '[a!=b]', ':root', ':empty', ':first-child', ':checked', ':default', ':hover',
               ':is(a, b)', ':not(a)', ':where(a b)', ':matches(a)', ':has(> a, + b)', ':nth-child(2n+1)', ':nth-child(odd of a)',
               ':nth-last-child(-n + 3)', ':nth-of-type(even)', ':nth-last-of-type(5)', ':lang(en, "de-*")', ':dir(rtl)',
               ':-soup-contains("x", y)', ':-soup-contains-own(x)', ':contains(x)', ':current(a)', ':host(a)',
               ':host-context(a)', ':host', 'a > b', 'a + b', 'a ~ b', 'a b', 'a, b', '&', ':scope', '::before', '@Pmedia',
               ':--custom', '/* c */ a /* d */', 'a\\:b', '\\31 a', 'a\\', '"', '[a="', ':is(', 'a,', ':defined',
               ':placeholder-shown', ':in-range', ':out-of-range', ':indeterminate', ':read-only', ':any-link', ':local-link',
               # escapes against unusual neighbours inside strings and identifiers
               '[title="\\41/**/"]', ':lang("\\65/* x */n")', ':-soup-contains("\\41/**/b", \\41/**/)', '[a="b\\\n"]', '#a\\41/**/', '[a=b \u017f]',
               '[\\d800]', ':\\dfff', ':l\\61ng(en)', '[a="\\10FFFF\\110000"]']


NSVARIANTS = [None, {}, {'ns': 'urn:x'}, {'': 'urn:x'}, {'ns': 'urn:x', 'svg': 'urn:y', '': ''}]


def plan(tier, seed):
    n = 64 if tier == 'quick' else 640
    it = 8000 if tier == 'quick' else 40000
    units = [{'kind': 'fuzz', 'seed': seed * 65537 + i, 'iters': it} for i in range(n)]
    units += [{'kind': 'custom', 'seed': seed * 65537 + 100000 + i, 'iters': 350 if tier == 'quick' else 2500}
              for i in range(16 if tier == 'quick' else 160)]
    units += [{'kind': 'deep', 'seed': seed * 65537 + 200000 + i, 'iters': 12 if tier == 'quick' else 60}
              for i in range(16 if tier == 'quick' else 64)]
    return units


DEEP_WRAPS = [(':is(', ')'), (':not(', ')'), (':where(', ')'), (':has(', ')'), (':has(> ', ')'), (':nth-child(1 of ', ')'), (':is(a, ', ')'),
              (':not(:is(', '))'), ('a:nth-last-child(2n+1 of b ', ')'), (':matches(', ')')]


def deep_pattern(rng, d):
    core = rng.choice(['a', '.x', '[b]', ':root', 'a > b', '*'])
    if rng.random() < .6:
        op, cl = rng.choice(DEEP_WRAPS)
        return op * d + core + cl * d
    pre, post = '', ''
    for _ in range(d):
        op, cl = rng.choice(DEEP_WRAPS)
        pre += op
        post = cl + post
    return pre + core + post


def deep_unit(sv, rng, iters, res, bump, sigs):
    """"Nesting depth below the interpreter's recursion budget" taken relative to the implementation: when compile(P)
    itself succeeds at the current stack depth, the same selector compiled again - in another spelling, with other
    arguments, after purge(), or simply a second time - is within the budget as well and must not raise anything else."""
    for _ in range(iters):
        d = rng.choice([20, 40, 60, 80, 100, 120, 150, 180, 220, 260])
        p = deep_pattern(rng, d)
        sv.purge()
        st, val = monitors.guarded_call(sv.compile, p, budget=10.0)
        res['evals'] += 1
        bump('deep_patterns')
        if st != 'ok':
            if st == 'raise' and not isinstance(val, (RecursionError, sv.SelectorSyntaxError)):
                bump('VIOL')
                res['viol'].append({'what': '%s escaped compile() of a pattern nested %d deep: %s' % (type(val).__name__, d, ascii(p)[:120]),
                                    'selector': p, 'deep': ['first'], 'class': sig('deep-first', type(val).__name__)})
            bump('deep_beyond_budget' if st == 'raise' and isinstance(val, RecursionError) else 'deep_other')
            continue
        bump('deep_within_budget')
        sigs.add(sig('deep', p[:40], d))
        variants = [('again', (p,), {}), ('trailing blank', (p + ' ',), {}), ('leading comment', ('/**/' + p,), {}),
                    ('custom={}', (p,), {'custom': {}}), ('namespaces={}', (p, {}), {}), ('flags', (p, None, 0x40), {}),
                    ('after purge', (p,), {'_purge': True}), ('upper-case', (p.replace(':is(', ':IS(').replace(':not(', ':NOT('),), {})]
        for name, a, kw in rng.sample(variants, 4):
            if kw.pop('_purge', False):
                sv.purge()
            st2, v2 = monitors.guarded_call(sv.compile, *a, budget=10.0, **kw)
            res['evals'] += 1
            if st2 == 'ok':
                bump('deep_second_compile_ok')
                continue
            bump('VIOL')
            if len(res['viol']) < 6:
                res['viol'].append({'what': 'compile(P) succeeds for P nested %d deep (%s...), compiling it once more (%s) %s' % (
                    d, ascii(p)[:60], name, ('raises %s [%s]' % (type(v2).__name__, monitors.exc_site(v2))) if st2 == 'raise' else 'exhausts its CPU budget'),
                    'selector': p, 'deep': [name], 'class': sig('deep', name, type(v2).__name__ if st2 == 'raise' else st2)})


class Cov:
    """New-line coverage of the parser modules via sys.monitoring (each location reports once)."""

    TOOL = 3

    def __init__(self):
        self.new = 0
        self.total = 0
        self.on = False

    def start(self):
        mon = sys.monitoring
        try:
            mon.use_tool_id(self.TOOL, 'verif-cov')
        except ValueError:
            return
        names = ('css_parser.py', 'util.py', 'css_types.py', '__init__.py')
        frag = os.sep + 'soupsieve' + os.sep

        def cb(code, line):
            fn = code.co_filename
            if frag in fn and fn.endswith(names):
                self.new += 1
                self.total += 1
            return mon.DISABLE
        mon.register_callback(self.TOOL, mon.events.LINE, cb)
        mon.set_events(self.TOOL, mon.events.LINE)
        self.on = True

    def stop(self):
        if self.on:
            sys.monitoring.set_events(self.TOOL, 0)
            sys.monitoring.free_tool_id(self.TOOL)
            self.on = False


def depth(p):
    """Nesting measure: parentheses plus a third of the combinator chain length (relation chains are nested in the
    compiled structure and are built and matched recursively, about three frames per compound)."""
    import re
    return p.count('(') + len(re.findall(r'[ \t\r\n\f>+~]+', p)) // 3


def judge(pattern, custom, st, val):
    """None if documented, else a description."""
    if st != 'raise':
        return None
    import soupsieve as sv
    ex = val
    if isinstance(ex, sv.SelectorSyntaxError):
        return None
    texts = [pattern] + (list(custom.values()) if custom else [])
    if isinstance(ex, NotImplementedError):
        if any('@' in t or '::' in t for t in texts):
            return None
        return 'NotImplementedError on a pattern without "@" or "::"'
    if isinstance(ex, RecursionError):
        if sum(depth(t) for t in texts) >= 40 or (custom and len(custom) >= 40):
            return None
        return 'RecursionError at nesting depth %d' % max(depth(t) for t in texts)
    if isinstance(ex, KeyError) and custom:
        from vlib.refsel import lower
        names = [lower(k) for k in custom]
        if len(set(names)) < len(names):
            return None
        return 'KeyError without two custom names equal after lower-casing'
    return '%s escaped compile()' % type(ex).__name__


def mutate(rng, s, corpus):
    k = rng.randrange(9)
    n = len(s)
    if k == 0 and n:
        return s[:rng.randrange(n + 1)]
    if k == 1 and n:
        i = rng.randrange(n)
        j = min(n, i + rng.randint(1, 6))
        return s[:i] + s[j:]
    if k == 2 and n:
        i = rng.randrange(n)
        j = min(n, i + rng.randint(1, 8))
        return s[:j] + s[i:j] + s[j:]
    if k == 3 and n > 1:
        i, j = sorted(rng.sample(range(n + 1), 2))
        m = rng.randrange(i, j + 1)
        return s[:i] + s[m:j] + s[i:m] + s[j:]
    if k == 4:
        o = rng.choice(corpus)
        return s[:rng.randrange(n + 1)] + o[rng.randrange(len(o) + 1):]
    if k == 5 and n:
        i = rng.randrange(n)
        j = min(n, i + rng.randint(1, 4))
        span = s[i:j]
        reps = rng.choice([2, 3, 17, 100, 700]) if not span.isdigit() else rng.choice([3, 40, 6000])
        return s[:i] + span * reps + s[j:]
    if k == 6 and n:
        i = rng.randrange(n)
        return s[:i] + rng.choice(HOSTILE) + s[i + 1:]
    i = rng.randrange(n + 1)
    ins = ''.join(rng.choice(HOSTILE) for _ in range(rng.choice([1, 1, 1, 2, 3])))
    return s[:i] + ins + s[i:]


def seeds(rng):
    from props import C05
    cfg = sels.Cfg(extra=[(.4, lambda r, d: ('raw', r.choice(C05.RAW)))])
    out = list(TOKEN_SEEDS)
    for _ in range(60):
        out.append(sels.render(sels.gen_list(rng, rng.choice([1, 2, 3]), cfg)))
    return out


def gen_custom(rng):
    names = [':--a', ':--b', ':--A', ':--c-d', ':--\\31 x', '--a', ':-a', ':--', ':--a b', ':a', '', ':--é', ':--B', ':--x\\', ':--(', ':--a\n', ':--b\n', ':--c-d\n', ':--a\n\n', '\n:--a', ':--a ']
    defs = ['a', '.x, #y', ':--a', ':--b', ':--a > :--b', ':is(:--a, p)', '', ' ', 'a,', ':--c-d:not(:--a)', ':nope', '[', ':--zz',
            ':--A', 'p:--a:--b', '@Pfoo', 'a::before', ':has(:--a)', ':nth-child(2 of :--b)', ':--\\31 x', '\\110000']
    m = {}
    r = rng.random()
    if r > .94:
        return {}, rng.choice(['a', ':--a', 'p > b', ':is(a)'])
    if r < .08:
        # long alias chain
        n = rng.choice([5, 30, 60])
        for i in range(n):
            m[':--c%d' % i] = (':--c%d' % (i + 1)) if i + 1 < n else 'p'
        return m, rng.choice([':--c0', ':--c%d' % (n // 2)])
    for _ in range(rng.randint(1, 5)):
        m[rng.choice(names)] = rng.choice(defs)
    pat = rng.choice([':--a', ':--b', ':--A', 'p:--c-d', ':is(:--a, :--b)', ':--\\31 x', ':--undefined', 'a', ':--a :--a', ':--B > :--a'])
    return m, pat


def run_unit(u):
    import warnings
    import soupsieve as sv
    warnings.simplefilter('ignore')
    rng = random.Random(u['seed'])
    res = {'evals': 0, 'sigs': [], 'viol': [], 'samples': [], 'counters': {}, 'notes': {}}
    cn = res['counters']
    sigs = set()
    seen_exc = set()

    def bump(k, n=1):
        cn[k] = cn.get(k, 0) + n

    def run_one(pattern, custom=None, mutated=True):
        sv.purge() if rng.random() < .02 else None
        cov.new = 0
        nsm = rng.choice(NSVARIANTS) if rng.random() < .25 else None
        st, val = monitors.guarded_call(sv.compile, pattern, nsm, custom=custom, budget=5.0)
        res['evals'] += 1
        novel = cov.new > 0
        if st == 'budget':
            bump('cpu_budget_exhausted(C07 seed)')
            res['notes'].setdefault('c07_seeds', []).append(pattern[:120])
            return novel
        if st == 'ok':
            bump('compiled')
            if mutated and len(val.selectors) > 0:
                sigs.add(sig(pattern))
        else:
            key = (type(val).__name__, monitors.exc_site(val))
            bump('raise:' + type(val).__name__)
            if key not in seen_exc:
                seen_exc.add(key)
                novel = True
                res['notes'].setdefault('exception_sites', []).append('%s@%s' % key)
            if mutated:
                sigs.add(sig(pattern))
        why = judge(pattern, custom, st, val)
        if why:
            bump('VIOL')
            if len(res['viol']) < 10:
                p = pattern
                # shrink: shorter prefixes/suffixes and span deletions that keep the same exception type and site
                key = (type(val).__name__, monitors.exc_site(val))

                def same(q):
                    s2, v2 = monitors.guarded_call(sv.compile, q, custom=custom, budget=5.0)
                    return s2 == 'raise' and (type(v2).__name__, monitors.exc_site(v2)) == key and judge(q, custom, s2, v2)
                changed = len(p) < 3000
                steps = 0
                while changed and steps < 150:
                    changed = False
                    for span in (max(1, len(p) // 2), max(1, len(p) // 4), 8, 3, 1):
                        i = 0
                        while i < len(p) and steps < 150:
                            q = p[:i] + p[i + span:]
                            steps += 1
                            if q != p and same(q):
                                p = q
                                changed = True
                            else:
                                i += span
                res['viol'].append({'what': '%s: compile(%s%s) raised %s: %s [%s]' % (
                    why, ascii(p)[:300], (', custom=%r' % custom) if custom else '', key[0], str(val)[:120], key[1]),
                    'selector': p, 'custom': custom, 'class': sig(key)})
        return novel

    cov = Cov()
    cov.start()
    try:
        if u['kind'] == 'deep':
            deep_unit(sv, rng, u['iters'], res, bump, sigs)
            pat = 'deep'
        elif u['kind'] == 'fuzz':
            corpus = seeds(rng)
            for s in corpus:
                run_one(s, mutated=False)
            base = len(corpus)
            for _ in range(u['iters']):
                parent = rng.choice(corpus) if rng.random() < .8 else rng.choice(corpus[base:] or corpus)
                child = parent
                for _m in range(rng.choice([1, 1, 2, 3])):
                    child = mutate(rng, child, corpus)
                if len(child) > 8000 and not any(c.isdigit() for c in child[:50]):
                    child = child[:8000]
                if len(child) > 14000:
                    child = child[:14000]
                if run_one(child):
                    corpus.append(child)
                    bump('corpus_growth')
            bump('lines_reached_in_parser_modules', 0)
            res['notes']['lines_reached'] = cov.total
        else:
            for _ in range(u['iters']):
                m, pat = gen_custom(rng)
                if rng.random() < .3:
                    pat = mutate(rng, pat, TOKEN_SEEDS)
                run_one(pat, custom=m)
                bump('custom_maps')
    finally:
        cov.stop()
    if len(res['samples']) < 2:
        res['samples'] = [{'pattern': ascii(s)[:150]} for s in (corpus[-2:] if u['kind'] == 'fuzz' else [pat])]
    res['sigs'] = list(sigs)
    return res


def replay(w):
    import warnings
    import soupsieve as sv
    warnings.simplefilter('ignore')
    if w.get('deep'):
        sv.purge()
        st, val = monitors.guarded_call(sv.compile, w['selector'], budget=10.0)
        if st != 'ok':
            return None if isinstance(val, (RecursionError, sv.SelectorSyntaxError)) else dict(w, status_now=repr(val))
        for a, kw in (((w['selector'] + ' ',), {}), ((w['selector'],), {'custom': {}}), ((w['selector'], {}), {})):
            st2, v2 = monitors.guarded_call(sv.compile, *a, budget=10.0, **kw)
            if st2 != 'ok':
                return dict(w, status_now='second compile: %r' % (v2,))
        return None
    st, val = monitors.guarded_call(sv.compile, w['selector'], custom=w.get('custom'), budget=5.0)
    why = judge(w['selector'], w.get('custom'), st, val)
    if not why:
        return None
    return dict(w, status_now='%s: %s' % (why, val))


def inconclusive(cn, tier):
    out = []
    if cn.get('compiled', 0) < 1000 or cn.get('raise:SelectorSyntaxError', 0) < 1000:
        out.append('fuzzer did not reach both outcomes often enough: %r' % cn)
    if not cn.get('custom_maps'):
        out.append('custom maps not exercised')
    if cn.get('deep_within_budget', 0) < 50 or cn.get('deep_second_compile_ok', 0) < 150:
        out.append('deep-nesting law observed too little: %d patterns within budget, %d second compiles' % (
            cn.get('deep_within_budget', 0), cn.get('deep_second_compile_ok', 0)))
    if cn.get('corpus_growth', 0) < 50:
        out.append('coverage guidance inactive (corpus growth %d)' % cn.get('corpus_growth', 0))
    return out


def extra_coverage(cn, notes, tier):
    return {'exception_sites_seen': sorted(set(notes.get('exception_sites', [])))[:80],
            'parser_lines_reached_per_worker_max': max(notes.get('lines_reached', [0]) or [0]),
            'cpu_budget_seeds_for_C07': notes.get('c07_seeds', [])[:20]}
