"""C14 - concurrent compilation and matching behave as if run one at a time.

Monitor: vlib/sched.py - worker threads run only while holding a token; a sys.monitoring LINE callback on soupsieve
code counts events per thread and hands the token over at planned points.  Strategies: (1) every single-preemption
schedule of two threads (run T1 for k events, run T2 to completion, resume T1; all k; both orders); (2) random
multi-preemption schedules with 2-4 threads; (3) free-running stress with setswitchinterval(1e-6).
Oracle: each thread's result equals the sequential reference (compile: selector-structure equality with a fresh
single-threaded parse; queries: identity lists), no thread raises, and after all threads finished a cache hit for
every used key equals the reference.
"""
import random
import sys
import threading

from vlib import monitors, sched
from vlib.runner import sig

ID = 'C14'
LEVEL = 'exploration'
ANCHORS = ['CSSParser.selector_iter', 'SpecialPseudoPattern.match', 'SpecialPseudoPattern.get_name', '_cached_css_compile',
           'process_custom', 'CSSParser.parse_pseudo_class_custom', 'lower', 'CSSMatch.__init__']
RULE = ('pairs (and small groups) of jobs: compile of patterns from the five special pseudo-class families (contains, nth-child, '
        'nth-of-type, lang, dir), ordinary patterns, custom-alias patterns with a map that is fresh for every schedule, '
        'cache-defeating variants, and select/match/filter/closest on a shared document with memoising pseudo-classes.  For '
        'every pair: all single-preemption points of both orders at statement granularity; plus random 2-6-preemption '
        'schedules with 2-4 threads and a free-running stress baseline.  Non-trivial = a schedule in which at least one '
        'preemption happened inside soupsieve code; distinct = distinct (job pair, switch-point vector).')
ASSUMPTIONS = [
    'a thread switch is modelled at statement (LINE event) granularity inside soupsieve code; switches inside a statement, '
    'inside the C implementation of re/lru_cache and on free-threaded builds are out of reach',
    'the sequential reference is a fresh compile after purge() in the same process',
]

SPECIAL = [':-soup-contains("x y", z)', ':-soup-contains-own(x)', ':nth-child(2n+1)', ':nth-last-child(-n+3 of p)', ':nth-of-type(even)',
           ':nth-last-of-type(3)', ':lang(en, "de-*")', ':dir(rtl)', 'p:lang(fr):nth-child(odd)', 'a:-soup-contains(t):dir(ltr)',
           # the same names spelled with escapes (whatever a tokenizer keeps per match must not be shared between threads)
           'p:l\\61ng(en)', ':nth-\\63hild(2)', ':-soup-c\\6fntains(x)', 'li:\\6c ang("*-US")', ':\\6eth-last-child(2 of li)', ':d\\69r(ltr)',
           ':-soup-contains-\\6fwn(t)']
ORDINARY = ['div > p.x[title~=y]', ':is(a, b):not(.c)', 'p:has(> span + b)', '#i1, .k ~ li', ':root:empty', ':checked, :default']
CUSTOMS = [':--al > b', 'p:--al:--nest', ':is(:--nest, i)']
QUERIES = [':lang(en)', ':default', ':indeterminate', ':dir(rtl)', 'p:nth-child(odd)', ':-soup-contains(t)', ':checked ~ :in-range', 'li:lang("*-US")']
DOC = ('<html><head><meta http-equiv="content-language" content="en-US"></head><body><form><input type=radio name=r>'
       '<input type=radio name=r><input type=submit><input type=number min=1 max=3 value=5><input type=checkbox checked></form>'
       '<ul><li>t</li><li lang="de">u</li><li dir=rtl>אב</li></ul><p>t<span>a</span><b>b</b></p><p class=x>z</p></body></html>')


def plan(tier, seed):
    units = []
    n_pairs = 48 if tier == 'quick' else 400
    for i in range(n_pairs):
        units.append({'kind': 'single', 'seed': seed * 8191 + i, 'cap': 350 if tier == 'quick' else None})
    for i in range(4 if tier == 'quick' else 96):
        # bytecode-instruction granularity (switches *inside* a statement), evenly spaced points
        units.append({'kind': 'single', 'seed': seed * 8191 + 5000 + i, 'cap': 250 if tier == 'quick' else 2500, 'gran': 'instruction',
                      'compile_only': True})
    for i in range(16 if tier == 'quick' else 160):
        units.append({'kind': 'multi', 'seed': seed * 8191 + 10000 + i, 'n': 120 if tier == 'quick' else 600})
    for i in range(8 if tier == 'quick' else 32):
        units.append({'kind': 'stress', 'seed': seed * 8191 + 20000 + i, 'n': 150 if tier == 'quick' else 1500})
    return units


_uid = [0]


def make_job(rng, sv, doc):
    """Returns (label, thunk, reference thunk, comparer-normaliser)."""
    r = rng.random()
    if r < .12:
        # names nobody lower-cased yet in this process (a fresh suffix per schedule, see instantiate)
        return ('compile', rng.choice(['p[data-u{uid}~=x]:nth-child(2)', 'tag{uid}.c{uid}:lang(en)', '[A{uid}=b i]:dir(ltr)', ':is(x{uid}, y{uid}) > [b{uid}]']),
                'uid')
    if r < .5:
        pat = rng.choice(SPECIAL) if rng.random() < .75 else rng.choice(ORDINARY)
        if rng.random() < .3:
            pat = pat + ', ' + rng.choice(SPECIAL)
        if rng.random() < .2:
            pat = pat + ' ' * rng.randint(1, 3)           # cache-defeating variant
        return ('compile', pat, None)
    if r < .7:
        return ('compile', rng.choice(CUSTOMS), 'fresh')
    if r < .8:
        q = rng.choice(QUERIES)
        op = rng.choice(['select', 'select', 'match', 'filter', 'closest'])
        return (op, q, None)
    # queries on parentless trees (each job owns one): positional pseudo-classes need a stand-in parent there
    return ('detached', rng.choice(['div:first-child > p', ':only-child', 'div:nth-child(1) p:nth-child(2)', ':root > p:last-child',
                                    'div:nth-last-of-type(1) > :first-child', ':not(:nth-child(2)) > p']), rng.randrange(3))


def instantiate(jobs):
    """Give every job that wants a custom map an equal-but-distinct dict whose content is new for this schedule
    (so that nothing derived from an equal mapping can have been cached by an earlier schedule)."""
    if not any(j[2] in ('fresh', 'uid') for j in jobs):
        return jobs, False
    _uid[0] += 1
    out = []
    for k, j in enumerate(jobs):
        if j[2] == 'uid':
            out.append((j[0], j[1].replace('{uid}', '%dx%d' % (_uid[0], k)), None))
        elif j[2] == 'fresh':
            out.append((j[0], j[1], {':--al': 'a.k%d, .x' % _uid[0], ':--Nest': ':--al > b.n%d' % _uid[0]}))
        else:
            out.append(j)
    return out, True


def thunk(sv, doc, job):
    kind, text, custom = job
    if kind == 'compile':
        return lambda: sv.compile(text, custom=custom)
    if kind == 'detached':
        d2 = _detached(custom)
        return lambda: [sv.match(text, d2)] + sv.select(text, d2)
    if kind == 'select':
        return lambda: sv.select(text, doc)
    if kind == 'match':
        el = doc.find_all(True)[7]
        return lambda: sv.match(text, el)
    if kind == 'filter':
        return lambda: sv.filter(text, doc.form)
    return lambda: sv.closest(text, doc.span)


_DET = {}


def _detached(i):
    """Parentless element trees (never attached to a document), one per index."""
    import bs4
    if i not in _DET:
        soup = bs4.BeautifulSoup('', 'html.parser')
        d = soup.new_tag('div')
        for j in range(2 + i):
            p = soup.new_tag('p')
            p.string = 'p%d' % j
            d.append(p)
        _DET[i] = d
    return _DET[i]


def norm(kind, val):
    if kind == 'compile':
        return val.selectors
    if kind == 'detached':
        return [val[0]] + [id(x) for x in val[1:]]
    if isinstance(val, list):
        return [id(x) for x in val]
    return id(val) if not isinstance(val, bool) and val is not None else val


def reference(sv, doc, jobs):
    out = []
    for j in jobs:
        sv.purge()
        out.append(norm(j[0], thunk(sv, doc, j)()))
    sv.purge()
    return out


def cache_probe(sv, jobs):
    """What the pattern cache answers for every compile job right after the threads finished."""
    out = []
    for j in jobs:
        if j[0] != 'compile':
            out.append(None)
            continue
        try:
            out.append(('ok', sv.compile(j[1], custom=j[2]).selectors))
        except Exception as ex:  # noqa: BLE001
            out.append(('raise', ex))
    return out


def safe_reference(sv, doc, jobs):
    try:
        return reference(sv, doc, jobs), None
    except Exception as ex:  # noqa: BLE001 - something wrong was left behind by the concurrent phase
        return None, ex


def judge(jobs, refs, results, cached, ref_error=None):
    """Returns list of problem strings."""
    bad = []
    if ref_error is not None:
        return ['a sequential compile after the concurrent phase raised %s: %s (state left behind)' % (
            type(ref_error).__name__, str(ref_error)[:100].replace('\n', ' '))]
    for i, (j, ref, r) in enumerate(zip(jobs, refs, results)):
        if r is None:
            bad.append('thread %d (%s %r) did not finish' % (i, j[0], j[1]))
        elif r[0] == 'raise':
            bad.append('thread %d (%s %r) raised %s: %s' % (i, j[0], j[1], type(r[1]).__name__, str(r[1])[:100].replace('\n', ' ')))
        elif norm(j[0], r[1]) != ref:
            bad.append('thread %d (%s %r) returned a value different from the sequential run' % (i, j[0], j[1]))
    for j, ref, c in zip(jobs, refs, cached):
        if c is None:
            continue
        if c[0] == 'raise':
            bad.append('cache lookup for %r raised %r' % (j[1], c[1]))
        elif c[1] != ref:
            bad.append('cache holds a wrong object for %r' % (j[1],))
    return bad


def run_unit(u):
    import warnings
    import bs4
    import soupsieve as sv
    warnings.simplefilter('ignore')
    rng = random.Random(u['seed'])
    res = {'evals': 0, 'sigs': [], 'viol': [], 'samples': [], 'counters': {}, 'notes': {}}
    cn = res['counters']
    sigs = set()
    doc = bs4.BeautifulSoup(DOC, 'html.parser')
    # warm-up: more distinct names than any process-wide memo of lower-cased names can hold
    for i in range(700):
        try:
            sv.compile('w%d[data-w%d]' % (i, i))
        except Exception:  # noqa: BLE001
            pass
    sv.purge()

    def bump(k, n=1):
        cn[k] = cn.get(k, 0) + n

    def report(jobs, plan_, bad, strategy):
        bump('VIOL')
        if len(res['viol']) < 6:
            res['viol'].append({'what': '%s schedule %s of %s: %s' % (strategy, plan_[:8], [(j[0], j[1]) for j in jobs], '; '.join(bad[:3])),
                                'jobs': [list(j) for j in jobs], 'plan': [list(p) for p in plan_], 'strategy': strategy,
                                'selector': ' || '.join(j[1] for j in jobs),
                                'class': sig(strategy, sorted(b.split('(')[0] + b.split(')')[-1][:40] for b in bad)[:2])})

    if u['kind'] in ('single', 'multi'):
        s = sched.Scheduler(u.get('gran', 'line'))
        s.install()
        try:
            if u['kind'] == 'single':
                jobs = [make_job(rng, sv, doc), make_job(rng, sv, doc)]
                while u.get('compile_only') and not all(j[0] == 'compile' for j in jobs):
                    jobs = [make_job(rng, sv, doc), make_job(rng, sv, doc)]
                if rng.random() < .25:
                    a, b = rng.sample(CUSTOMS, 2)
                    jobs = [('compile', a, 'fresh'), ('compile', b, 'fresh')]
                refs = reference(sv, doc, instantiate(jobs)[0])
                base_refs = refs
                # measure each job alone
                lens = []
                for i in (0, 1):
                    sv.purge()
                    s.run([thunk(sv, doc, instantiate(jobs)[0][i])], [(0, None)])
                    lens.append(s.counts[0])
                for first in (0, 1):
                    second = 1 - first
                    cap = u.get('cap')
                    step = 1 if not cap or lens[first] <= cap else -(-lens[first] // cap)
                    for k in range(1 + (rng.randrange(step) if step > 1 else 0), lens[first] + 1, step):
                        jobs_i, fresh = instantiate(jobs)
                        sv.purge()
                        plan_ = [(first, k), (second, None), (first, None)]
                        results = s.run([thunk(sv, doc, j) for j in jobs_i], plan_)
                        cached = cache_probe(sv, jobs_i)
                        # with a per-schedule custom map the sequential reference can only be computed afterwards
                        refs, rerr = safe_reference(sv, doc, jobs_i) if fresh else (base_refs, None)
                        res['evals'] += 1
                        bump('schedules_single' if u.get('gran', 'line') == 'line' else 'schedules_single_instruction')
                        if s.deadlock:
                            bump('deadlock')
                        bad = judge(jobs_i, refs, results, cached, rerr)
                        if len(s.trace) > 2:
                            bump('nontrivial')
                            sigs.add(sig(jobs[0][:2], jobs[1][:2], first, k))
                        if bad:
                            report(jobs, plan_, bad, 'single-preemption')
                            if cn.get('VIOL', 0) > 40:
                                break
                res['notes']['sites'] = sorted('%s:%s' % x for x in s.sites)[:400]
                res['samples'].append({'jobs': [(j[0], j[1]) for j in jobs], 'events_alone': lens, 'schedules': lens[0] + lens[1]})
            else:
                for _ in range(u['n']):
                    n = rng.choice([2, 2, 3, 4])
                    jobs = [make_job(rng, sv, doc) for _ in range(n)]
                    if rng.random() < .3:
                        jobs[1] = jobs[0]                 # same pattern in two threads
                    jobs, _f = instantiate(jobs)
                    plan_ = [(rng.randrange(n), rng.randint(1, 400)) for _ in range(rng.randint(2, 6))]
                    sv.purge()
                    results = s.run([thunk(sv, doc, j) for j in jobs], plan_)
                    cached = cache_probe(sv, jobs)
                    refs, rerr = safe_reference(sv, doc, jobs)
                    res['evals'] += 1
                    bump('schedules_multi')
                    if s.deadlock:
                        bump('deadlock')
                    bad = judge(jobs, refs, results, cached, rerr)
                    if len(s.trace) > n:
                        bump('nontrivial')
                        sigs.add(sig([j[:2] for j in jobs], plan_))
                    if bad:
                        report(jobs, plan_, bad, 'multi-preemption')
                res['notes']['sites'] = sorted('%s:%s' % x for x in s.sites)[:400]
        finally:
            s.uninstall()
    else:
        old = sys.getswitchinterval()
        sys.setswitchinterval(1e-6)
        try:
            for rnd in range(u['n']):
                n = rng.choice([2, 4, 8])
                jobs, _f = instantiate([make_job(rng, sv, doc) for _ in range(n)])
                reps = 1
                if rnd % 6 == 5:
                    # a storm: every thread repeats one short query on its own parentless tree many times (windows of a few
                    # byte codes are only hit by repetition)
                    sel_ = rng.choice([':only-child', 'div:first-child > p', ':not(:nth-child(2)) > p', 'div:nth-last-of-type(1) > :first-child'])
                    jobs = [('detached', sel_ if rng.random() < .7 else ':only-child', i % 3) for i in range(n)]
                    reps = 150
                    bump('stress_storms')
                if rnd % 6 == 2:
                    # a second storm: every thread compiles patterns made of names nobody has lower-cased yet (bounded memo tables are
                    # full after the warm-up, so every new name evicts something); nothing but a compiled object may come back
                    bump('stress_name_storms')
                    errs = []
                    barrier2 = threading.Barrier(n)

                    import bs4 as _bs4
                    els_ = []
                    for i in range(n):
                        sp_ = _bs4.BeautifulSoup('<div></div>', 'html.parser')
                        for k_ in range(300):
                            sp_.div['Data-R%dT%dK%d' % (rnd, i, k_)] = 'v'
                        els_.append(sp_.div)
                    last_ = [sv.compile('div[data-r%dt%dk299]' % (rnd, i)) for i in range(n)]

                    def body2(i):
                        barrier2.wait()
                        for k_ in range(12):
                            # an attribute selector walks every attribute name of its element through the case folding
                            try:
                                if last_[i].match(els_[i]) is not True:
                                    errs.append('match of [data-r%dt%dk299] on its own element is not True' % (rnd, i))
                            except BaseException as ex:  # noqa: BLE001
                                errs.append('match raised %s: %s [%s]' % (type(ex).__name__, str(ex)[:80], monitors.exc_site(ex)))
                            if errs:
                                return
                        for k_ in range(40):
                            text_ = 'T%dx%dx%d[A%dx%dx%d=x i]:lang(L%dx%d)' % (rnd, i, k_, rnd, i, k_, i, k_)
                            try:
                                c_ = sv.compile(text_)
                                if c_.pattern != text_:
                                    errs.append('compile(%r) returned the object of %r' % (text_, c_.pattern))
                            except BaseException as ex:  # noqa: BLE001
                                errs.append('compile(%r) raised %s: %s [%s]' % (text_, type(ex).__name__, str(ex)[:80], monitors.exc_site(ex)))
                            if errs:
                                return
                    ths2 = [threading.Thread(target=body2, args=(i,)) for i in range(n)]
                    for t in ths2:
                        t.start()
                    for t in ths2:
                        t.join(120)
                    res['evals'] += 1
                    if errs:
                        report([('compile', 'T<round>x<thread>x<k>[A...=x i]:lang(L...) (fresh names)', None)] * 2, [], errs[:2], 'free-running')
                    continue
                allres = [[None] * n for _ in range(reps)]
                barrier = threading.Barrier(n)

                def body(i):
                    barrier.wait()
                    f = thunk(sv, doc, jobs[i])
                    for k_ in range(reps):
                        try:
                            allres[k_][i] = ('ok', f())
                        except BaseException as ex:  # noqa: BLE001
                            allres[k_][i] = ('raise', ex)
                sv.purge()
                ths = [threading.Thread(target=body, args=(i,)) for i in range(n)]
                for t in ths:
                    t.start()
                for t in ths:
                    t.join(120)
                res['evals'] += 1
                bump('stress_rounds')
                cached = cache_probe(sv, jobs)
                refs, rerr = safe_reference(sv, doc, jobs)
                for results in allres:
                    if any(r is None for r in results):
                        continue
                    bad = judge(jobs, refs, results, cached, rerr)
                    if bad:
                        report(jobs, [], bad, 'free-running')
                        break
        finally:
            sys.setswitchinterval(old)
    res['sigs'] = list(sigs)
    return res


def replay(w):
    import warnings
    import bs4
    import soupsieve as sv
    warnings.simplefilter('ignore')
    doc = bs4.BeautifulSoup(DOC, 'html.parser')
    jobs, _f = instantiate([tuple(j) for j in w['jobs']])
    if w['strategy'] == 'free-running':
        return dict(w, status_now='free-running witnesses are not deterministic; re-run the check')
    s = sched.Scheduler()
    s.install()
    try:
        sv.purge()
        plan_ = [tuple(p) for p in w['plan']]
        results = s.run([thunk(sv, doc, j) for j in jobs], plan_)
        cached = cache_probe(sv, jobs)
        refs, rerr = safe_reference(sv, doc, jobs)
        bad = judge(jobs, refs, results, cached, rerr)
    finally:
        s.uninstall()
    return dict(w, status_now=bad) if bad else None


def inconclusive(cn, tier):
    out = []
    if cn.get('schedules_single', 0) < (15000 if tier == 'quick' else 200000):
        out.append('too few single-preemption schedules: %d' % cn.get('schedules_single', 0))
    if cn.get('nontrivial', 0) < (5000 if tier == 'quick' else 50000):
        out.append('too few schedules with a preemption inside soupsieve: %d' % cn.get('nontrivial', 0))
    if cn.get('deadlock', 0):
        out.append('scheduler watchdog fired %d times' % cn['deadlock'])
    if not cn.get('stress_rounds') or not cn.get('schedules_multi'):
        out.append('multi-preemption or stress workload missing')
    return out


def extra_coverage(cn, notes, tier):
    sites = sorted(set(notes.get('sites', [])))
    return {'preemption_sites_covered': len(sites), 'preemption_sites_sample': sites[:60],
            'exhaustive_subspace': 'every single-preemption point (statement granularity) of both orders for each generated job pair (quick: at most 350 evenly spaced points per order for long jobs)'}
