""":lang() - C13: RFC 4647 extended filtering over the inherited language.

Oracle: own RFC 4647 3.3.2 filter + the CSS special cases ("" only an explicitly empty language, "*" only a
non-empty one) + language determination on a snapshot (nearest lang / xml:lang, iframe boundary, <meta> pragma, else
unknown) - vlib/reflang.py.
Workload: exhaustive (range, tag) pairs over a 6-symbol alphabet through the real API, plus generated documents that
sweep the attribute's position in the ancestor chain, explicit lang="" at every depth, meta present/absent/late/
malformed, HTML/XHTML/XML, iframes, several :lang() per compound.
"""
import itertools
import random

from vlib import cases, htmlgen, monitors, reflang, refsel, sels, trees
from vlib.runner import sig
from vlib.trees import E, T, NS_XHTML, NS_XML

ID = 'C13'
LEVEL = 'exploration'
ANCHORS = ['CSSMatch.extended_language_filter', 'CSSMatch.match_lang', 'CSSParser.parse_pseudo_lang']
RULE = ('exhaustive: every range of <= R subtags over {en, de, a, x, 1996, *} (plus the empty range; quoted, random case, '
        'also as escaped bare identifiers and in two-range lists) x every tag of <= T subtags over {en, de, a, x, 1996} (plus '
        'the empty tag), through match() on one-element documents (quick R=3 T=4, thorough R=4 T=5); generated documents: '
        'lang / xml:lang at random depths incl. lang="", <meta> pragma present/absent/late/malformed/empty, HTML by three '
        'parsers and the bs4 API, XHTML, XML, html.parser iframes; selectors with one or two :lang() plus glue.  Non-trivial = '
        'a pair/case whose expected answer is True, or False with a shared primary subtag; distinct = distinct (range, tag) or '
        '(selector, document shape).')
ASSUMPTIONS = [
    'lang values and ranges contain no whitespace or commas and no empty subtags (other than the wholly empty value)',
    'the <meta> pragma applies to a non-XML HTML document as a whole; for XHTML documents, documents embedded in an iframe and '
    'detached subtrees the pragma is unspecified (only compared when no qualifying <meta> exists)',
    'lang applies to HTML/XHTML-namespace elements, xml:lang to other elements of namespace-aware documents; ancestor chains '
    'that mix the two are unspecified',
]

SUB = ['en', 'de', 'a', 'x', '1996']


def ranges(R):
    out = ['']
    for n in range(1, R + 1):
        for p in itertools.product(SUB + ['*'], repeat=n):
            out.append('-'.join(p))
    return out


def tags(T):
    out = ['']
    for n in range(1, T + 1):
        for p in itertools.product(SUB, repeat=n):
            out.append('-'.join(p))
    return out


def _plan0(tier, seed):
    R, T_ = (3, 4) if tier == 'quick' else (4, 5)
    rs = ranges(R)
    units = []
    chunk = 6 if tier == 'quick' else 12
    for i in range(0, len(rs), chunk):
        units.append({'kind': 'pairs', 'ranges': rs[i:i + chunk], 'T': T_, 'seed': seed + i})
    for i in range(48 if tier == 'quick' else 480):
        units.append({'kind': 'docs', 'seed': seed * 30011 + i, 'n': 160 if tier == 'quick' else 400})
    return units


def plan(tier, seed):
    """... plus the shared 'lazy' units: iselect consumed step by step while the caller edits, between two items, exactly what
    this property's pseudo-classes depend on (vlib/lazy.py; the rest of the iteration must be what the selector designates on
    the tree as it is now)."""
    units = _plan0(tier, seed)
    themes = ['lang']
    k = 16 if tier == 'quick' else 160
    units += [{'kind': 'lazy', 'theme': themes[i % len(themes)], 'seed': seed * 65521 + i, 'n': 60 if tier == 'quick' else 200} for i in range(k)]
    return units


def spell_range(rng, r):
    k = rng.randrange(4)
    rr = ''.join(c.upper() if rng.random() < .3 else c for c in r)
    if k == 0 or r == '':
        return '"%s"' % rr
    if k == 1:
        return "'%s'" % rr
    if k == 2:
        return ''.join(('\\' + c) if c == '*' else (('\\3%s ' % c) if (i == 0 and c.isdigit()) else c) for i, c in enumerate(rr))
    return '"%s"' % rr


def gen_doc(rng):
    """Recipe + materialiser for the document sweep."""
    kind = rng.choice(['html', 'html', 'html', 'xhtml', 'xml', 'iframe'])
    langs = ['en', 'en-US', 'de', 'de-DE-1996', '', 'EN-us', 'x-en', 'a-de', 'en_US', 'de-a_b-DE', 'en_', 'de-strasse', 'de-straße', 'en-us']
    budget = [rng.randint(2, 12)]

    def lang_attr(e, xml_style):
        if rng.random() < .3:
            v = rng.choice(langs)
            if xml_style:
                e.attrs[('xml', 'lang', NS_XML)] = v
            else:
                e.attrs[rng.choice(['lang', 'lang', 'LANG']) if kind not in ('xhtml', 'xml') else 'lang'] = v
        if rng.random() < .06:
            # the other flavour as a decoy
            if xml_style:
                e.attrs['lang'] = rng.choice(langs)
            else:
                e.attrs[('xml', 'lang', NS_XML)] = rng.choice(langs)

    def el(depth, xml_style):
        budget[0] -= 1
        e = E(rng.choice(['p', 'div', 'span', 'b']))
        lang_attr(e, xml_style)
        while budget[0] > 0 and depth < 5 and rng.random() < .6:
            e.kids.append(el(depth + 1, xml_style))
        return e

    def head():
        h = E('head')
        r = rng.random()
        metas = []
        if r < .55:
            metas.append(E('meta', {rng.choice(['http-equiv', 'HTTP-EQUIV']): rng.choice(['content-language', 'Content-Language']),
                                    'content': rng.choice(['en', 'de-DE', 'fr', 'en-US'])}))
        elif r < .65:
            metas.append(E('meta', {'http-equiv': 'content-language', 'content': ''}))
            if rng.random() < .5:
                metas.append(E('meta', {'http-equiv': 'content-language', 'content': 'de'}))
        elif r < .72:
            metas.append(E('meta', {'http-equiv': 'refresh', 'content': 'en'}))
        elif r < .8:
            metas.append(E('meta', {'content': 'en'}))
        if rng.random() < .3:
            metas.insert(0, E('meta', {'charset': 'utf-8'}))
        if rng.random() < .35:
            # other <meta> elements that carry a content attribute, before and after the pragma
            metas.insert(rng.randrange(len(metas) + 1), E('meta', {'name': 'viewport', 'content': rng.choice(['width=1', 'fr', 'late'])}))
        if rng.random() < .15:
            metas.append(E('meta', {'content': 'zz', 'name': 'x'}))
        if rng.random() < .2:
            metas.insert(0, E('title', {}, [T('text', 't')]))
        h.kids = metas
        return h

    if kind == 'xml':
        root = E('root', {}, [el(0, True) for _ in range(rng.randint(1, 3))])
        lang_attr(root, True)
        return [root], rng.choice(['xml', 'api-xml']), kind
    body = E('body', {}, [el(0, False) for _ in range(rng.randint(1, 3))])
    if kind == 'iframe':
        inner = E('html', {}, [head(), E('body', {}, [el(0, False) for _ in range(rng.randint(1, 2))])])
        lang_attr(inner, False)
        fr = E('iframe', {}, [inner])
        lang_attr(fr, False)
        body.kids.insert(rng.randrange(len(body.kids) + 1), E('div', {}, [fr]))
    html = E('html', {}, [head(), body])
    lang_attr(html, False)
    if rng.random() < .1:
        html.kids.append(E('head', {}, [E('meta', {'http-equiv': 'content-language', 'content': 'late'})]))
    if kind == 'xhtml':
        html.nsdecl = {'': NS_XHTML}
        html.ns = NS_XHTML
        if rng.random() < .3:
            body.kids.append(E('foreign', {('xml', 'lang', NS_XML): 'de'}, [E('leaf')], prefix='f', ns='urn:f', nsdecl={'f': 'urn:f'}))
        return [html], 'xml', kind
    how = 'html.parser' if kind == 'iframe' else rng.choice(['html.parser', 'lxml', 'html5lib', 'api'])
    tops = [html]
    r = rng.random()
    if r < .12:
        # an element before <head> inside <html> (html.parser and the API keep it there; the pragma is still the head's)
        html.kids.insert(0, E(rng.choice(['link', 'p', 'script'])))
    elif r < .2:
        html.kids = [k for k in html.kids if k.name != 'head'] + [k for k in html.kids if k.name == 'head']    # head after body
    if rng.random() < .08 and kind != 'iframe':
        tops = [E('p', {}, [T('text', 'early')]), html]            # an element before <html> at the top level
    return tops, how, kind


def run_unit(u):
    import bs4
    import soupsieve as sv
    res = {'evals': 0, 'sigs': [], 'viol': [], 'samples': [], 'counters': {}}
    cn = res['counters']
    sigs = set()

    def bump(k, n=1):
        cn[k] = cn.get(k, 0) + n

    rng = random.Random(u['seed'])
    if u['kind'] == 'pairs':
        tg = tags(u['T'])
        soup = bs4.BeautifulSoup('<div><p>x</p></div>', 'html.parser')
        p = soup.p
        xsoup = bs4.BeautifulSoup('<r><p>x</p></r>', 'xml')
        xp = xsoup.p
        from bs4.element import NamespacedAttribute
        xkey = NamespacedAttribute('xml', 'lang', NS_XML)
        for r in u['ranges']:
            text = ':lang(%s)' % spell_range(rng, r)
            other = rng.choice(['fr', 'zz-x'])
            text2 = ':lang(%s, %s)' % ((other, spell_range(rng, r)) if rng.random() < .5 else (spell_range(rng, r), other))
            try:
                c1, c2 = sv.compile(text), sv.compile(text2)
            except Exception as ex:  # noqa: BLE001
                bump('VIOL')
                res['viol'].append({'what': 'compile(%r) raised %r' % (text, ex), 'selector': text, 'range': r, 'tag': None,
                                    'class': sig('compile')})
                continue
            for t in tg:
                exp = reflang.extended_filter(r, t)
                if exp is None:
                    bump('unspecified')
                    continue
                p['lang'] = t
                xp.attrs[xkey] = t
                for (c, el, label) in ((c1, p, 'html'), (c2, p, 'html-list'), (c1, xp, 'xml')):
                    st, got = monitors.guarded_call(c.match, el)
                    res['evals'] += 1
                    if st == 'ok' and got == exp:
                        if exp or (r and t and refsel.lower(r.split('-')[0]) in ('*', t.split('-')[0])):
                            sigs.add(sig(r, t))
                            bump('nontrivial')
                        continue
                    bump('VIOL')
                    if len(res['viol']) < 8:
                        res['viol'].append({'what': '%s on <p %s="%s"> (%s) -> %r, RFC 4647 extended filtering says %r' % (
                            c.pattern, 'lang' if el is p else 'xml:lang', t, label, got if st == 'ok' else st, exp),
                            'selector': c.pattern, 'range': r, 'tag': t, 'class': sig('pair', r.count('-'), r.endswith('*'), exp)})
        res['samples'].append({'range': u['ranges'][-1], 'tags_tried': len(tg), 'selector': text})
    else:
        cfg = sels.Cfg(names=['p', 'div', 'span', 'b', 'html', 'body'], p_id=0, p_class=0, p_attr=.1, attrs=['lang'], vals=['en', ''],
                       p_struct=.15, p_logical=.25, p_more=.3, flags=[None], struct=[x for x in sels.STRUCT if x != 'root'],
                       extra=[(.75, lambda r, d: ('lang', [r.choice(['en', 'EN', 'en-US', '*-US', 'de', 'de-*-1996', '*', '', 'fr', 'x', '*-en',
                                                                     'late', 'a', 'en-*', 'en_US', 'de-DE', 'en_'])
                                                           for _ in range(r.choice([1, 1, 2]))])),
                              (.15, lambda r, d: ('lang', [r.choice(['de', 'en', '*'])])),
                              # two ranges of one list that are different strings but equal under Unicode case folding (ß/ss, ſ/s):
                              # ranges are compared ASCII-case-insensitively, nothing folds them into one
                              (.08, lambda r, d: ('lang', r.choice([['de-straße', 'de-strasse'], ['de-strasse', 'de-straße'], ['en-uſ', 'en-us'],
                                                                    ['*-straße', 'de-strasse', 'fr']])))])
        for _ in range(u['n']):
            tops, how, kind = gen_doc(rng)
            target = ['doc']
            if kind == 'html' and how in ('html.parser', 'api') and rng.random() < .12:
                # a detached fragment that wraps a whole document: whose pragma applies is unspecified, an explicit lang="" is not
                tops = [E('div', {}, [t for t in tops])]
                target = ['detached', 0]
                bump('detached_wrapped_documents')
            try:
                case = cases.Case(tops, how, target, ext={'lang': reflang.lang_ext})
            except Exception:  # noqa: BLE001
                bump('materialise_failed')
                continue
            for _s in range(8):
                ast = sels.gen_list(rng, rng.choice([0, 1, 1]), cfg)
                st, info = cases.compare_select(sv, case, ast, cases.respelled(rng, ast, .3))
                res['evals'] += 1
                bump('kind:' + kind)
                if st == 'unspec':
                    bump('unspecified')
                    continue
                if st == 'agree':
                    if info['nontrivial']:
                        bump('nontrivial_docs')
                        sigs.add(sig(info['text'], cases.tree_shape(case.top_sn)))
                        if len(res['samples']) < 2:
                            res['samples'].append({'selector': info['text'], 'kind': kind, 'how': how,
                                                   'markup': trees.describe(case.soup, 300), 'selected': info['n_exp']})
                    continue
                bump('VIOL')
                if len(res['viol']) < 8:
                    what = '%s: select(%r) on %s document (%s) %s' % (st, info['text'], kind, how, trees.describe(case.soup, 500))
                    what += (' -> got %s, language rules say %s' % (info.get('got'), info.get('exp'))) if st == 'DISAGREE' else ' -> ' + info.get('exc', '')
                    res['viol'].append(case.witness(ast, info['text'], what, **{'class': sig(st, kind, sels.shape(ast))}))
    res['sigs'] = list(sigs)
    return res


def replay(w):
    import bs4
    import soupsieve as sv
    if 'range' in w:
        if w.get('tag') is None:
            try:
                sv.compile(w['selector'])
                return None
            except Exception as ex:  # noqa: BLE001
                return dict(w, status_now=repr(ex))
        soup = bs4.BeautifulSoup('<div><p>x</p></div>', 'html.parser')
        soup.p['lang'] = w['tag']
        exp = reflang.extended_filter(w['range'], w['tag'])
        got = sv.match(w['selector'], soup.p)
        return None if got == exp else dict(w, status_now='got %r, expected %r' % (got, exp))
    tops = cases.rebuild(w)
    case = cases.Case(tops, w['how'], w['target'], ext={'lang': reflang.lang_ext})
    st, info = cases.compare_select(sv, case, w['ast'], w.get('selector'))
    if st in ('agree', 'unspec'):
        return None
    return dict(w, status_now=st, observed=info)


def inconclusive(cn, tier):
    out = []
    if cn.get('nontrivial', 0) < (100000 if tier == 'quick' else 3000000):
        out.append('too few non-trivial (range, tag) pairs: %d' % cn.get('nontrivial', 0))
    if cn.get('nontrivial_docs', 0) < (5000 if tier == 'quick' else 100000):
        out.append('too few non-trivial document cases: %d' % cn.get('nontrivial_docs', 0))
    for k in ('html', 'xhtml', 'xml', 'iframe'):
        if cn.get('kind:' + k, 0) < 100:
            out.append('document kind %s exercised only %d times' % (k, cn.get('kind:' + k, 0)))
    return out


def extra_coverage(cn, notes, tier):
    R, T_ = (3, 4) if tier == 'quick' else (4, 5)
    return {'exhaustive': True, 'exhaustive_subspace': 'ranges of <= %d subtags over 6 symbols x tags of <= %d subtags over 5 symbols '
                                                       '(%d x %d pairs) through match(); document sweep is sampled' % (R, T_, len(ranges(R)), len(tags(T_)))}
