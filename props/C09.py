"""C09 - compiled meaning depends only on the token sequence, not on its spelling.

Oracle: metamorphic.  A valid selector is rendered canonically (r) and respelled (r') by the CSS-insignificant
rewrite rules of the statement, applied at every slot singly (exhaustive per selector) and in random combinations;
compile(r').selectors must equal compile(r).selectors, must not raise, and both must select the same elements on
probe documents.
"""
import random

from vlib import monitors, respell, sels, trees
from vlib.runner import sig
from vlib.trees import E, T

ID = 'C09'
LEVEL = 'exploration'
ANCHORS = ['CSSParser.selector_iter', 'css_unescape', 'CSSParser.parse_combinator', 'CSSParser.parse_attribute_selector',
           'CSSParser.parse_pseudo_nth', 'CSSParser.parse_pseudo_lang', 'CSSParser.parse_pseudo_contains',
           'CSSParser.parse_pseudo_dir', 'CSSParser.parse_pseudo_class', 'lower', 'SpecialPseudoPattern.match']
RULE = ('random valid selectors from a broad grammar (type/universal/namespace, id, class, attribute with every operator and '
        'flag, four combinators, lists, :not/:is/:where/:matches/:has, structural and state pseudo-classes, An+B with of S, '
        ':lang lists, :-soup-contains lists, :dir, custom names; identifiers and values over an alphabet with quotes, '
        'backslashes, blanks, digits, dashes, newlines, non-ASCII and astral characters); per selector every token slot is '
        'respelled singly by each applicable rule (whitespace/comments, hex and character escapes, quote style or bare '
        'identifier, letter case) and N random multi-slot combinations are added.  Non-trivial = a respelling whose text '
        'differs from the canonical rendering; distinct = distinct (selector, respelled text).')
ASSUMPTIONS = [
    'whitespace/comments are inserted only where the statement lists them; a descendant combinator and the separators '
    'around "of" keep at least one real whitespace character; the i/s flag after a bare identifier keeps a separator',
    'a hex escape at the end of an identifier always carries its own terminating whitespace; a lone CR is not used as a '
    'terminator (it would fuse with a following LF); the backslash-newline continuation inside strings is not a rewrite rule',
    'escapes are applied to identifiers (names, prefixes, ids, classes, attribute names, pseudo-class names) and to '
    'values, not to An+B keywords, of, ltr/rtl or the i/s flags (case only)',
]

IDENTS = ['x', 'a b', '1a', '-', 'é', 'a.b', 'a"b', "a'b", 'a\\b', 'A', '--x', '-1', 'a\nb', 'f00', 'abcdef', 'a b', '_', 'a-', 'x:y',
          'a,b', 'a>b', '(a)', '[a]', '#a', '\U0001f600', '\x7f', '\x01', 'a*', 'a/**/b', '0', 'de-DE', ' ', 'a=b', 'i', 'of', 'n', 'é\x85']
VALUES = IDENTS + ['', 'a  b', '\t', '"', "'", '\\', '\\\\', 'a\r\nb', 'x\ff', '*-de', 'en-*', '\\*', ' i', 'b i', '"a"', "'a'", 'a\\"', '*/', '/*']
PCS = ['root', 'empty', 'first-child', 'last-child', 'only-child', 'first-of-type', 'last-of-type', 'only-of-type', 'checked', 'default',
       'disabled', 'enabled', 'indeterminate', 'optional', 'required', 'read-only', 'read-write', 'placeholder-shown', 'in-range',
       'out-of-range', 'link', 'any-link', 'hover', 'focus', 'scope', 'defined', 'active', 'visited', 'target', 'focus-within']
NSMAP = {'ns': 'urn:n', 'svg': trees.NS_SVG}
CUSTOM = {':--al': 'a, .x', ':--b-1': 'b'}


def plan(tier, seed):
    n = 96 if tier == 'quick' else 800
    per = 45 if tier == 'quick' else 160
    return [{'seed': seed * 7919 + i, 'n': per, 'combos': 16 if tier == 'quick' else 40} for i in range(n)]


def _cfg():
    def nth(r, d):
        kind = r.choice(['nth-child', 'nth-last-child', 'nth-of-type', 'nth-last-of-type'])
        a = r.choice([0, 1, -1, 2, 3, -2, 10])
        b = r.choice([0, 1, -1, 2, 5, -3])
        of = None
        if kind.endswith('child') and r.random() < .35:
            of = [[{'tag': (None, r.choice(['a', 'p'])), 'classes': [r.choice(IDENTS)] if r.random() < .5 else []}]]
            if r.random() < .4:
                of.append([{'classes': [r.choice(IDENTS)]}])
        sp = None
        if (a, b) == (2, 0) and r.random() < .5:
            sp = [('kw', 'even')]
        if (a, b) == (2, 1) and r.random() < .5:
            sp = [('kw', 'odd')]
        return ('nth', kind, a, b, of, sp)

    def lang(r, d):
        return ('lang', [r.choice(['en', 'de-DE', '*-de', 'en-*', '', '*', 'x', 'fr-CA-x-y', 'a b']) for _ in range(r.choice([1, 1, 2, 3]))])

    def contains(r, d):
        return ('contains', r.random() < .3, [r.choice(VALUES) for _ in range(r.choice([1, 1, 2, 3]))], None)

    def dirp(r, d):
        return ('dir', r.choice(['ltr', 'rtl']))

    def pc(r, d):
        return ('pc', r.choice(PCS))

    def custom(r, d):
        return ('custom', r.choice(['--al', '--b-1']))
    return sels.Cfg(names=['a', 'p', 'div', 'x-y', 'é', 'A'], ids=IDENTS, classes=IDENTS, vals=VALUES,
                    attrs=['title', 'data-x', 'type', 'x:y', 'é', '-a', 'A'], struct=[], p_struct=0,
                    tag_prefixes=[None, None, None, 'ns', '*', ''], attr_prefixes=[None, None, None, 'ns', '*', ''],
                    extra=[(.2, nth), (.15, lang), (.15, contains), (.08, dirp), (.25, pc), (.06, custom)],
                    p_id=.25, p_class=.3, p_attr=.4, p_logical=.3)


def probe_docs():
    """Two probe documents carrying the vocabulary (ids/classes/attribute values/text/lang)."""
    import bs4
    docs = []
    for parser in ('html.parser', 'xml'):
        soup = bs4.BeautifulSoup('', parser)
        root = soup.new_tag('div')
        soup.append(root)
        rng = random.Random(7)
        cur = root
        for i in range(60):
            t = soup.new_tag(rng.choice(['a', 'p', 'div', 'x-y', 'é', 'A']))
            t['id'] = IDENTS[i % len(IDENTS)]
            t['class'] = [IDENTS[(i * 3) % len(IDENTS)], IDENTS[(i * 5 + 1) % len(IDENTS)]]
            t[rng.choice(['title', 'data-x', 'type', 'x:y', 'é', '-a', 'A'])] = VALUES[(i * 7) % len(VALUES)]
            if i % 4 == 0:
                t['lang'] = rng.choice(['en', 'de-DE', 'fr-CA-x-y', ''])
            t.append(bs4.NavigableString(VALUES[(i * 11) % len(VALUES)]))
            (cur if i % 3 else root).append(t)
            if i % 5 == 0:
                cur = t
        docs.append(soup)
    return docs


def observe(sv, text, docs, base=None):
    """('ok', selectors, results) | ('raise', exc).  Equal selector structures select the same elements (the matcher is a
    function of the structure), so the probe documents are only queried for the canonical rendering and for respellings
    whose structure differs (to describe the witness)."""
    st, val = monitors.guarded_call(sv.compile, text, NSMAP, custom=CUSTOM, budget=10.0)
    if st != 'ok':
        return st, val, None
    if base is not None and val.selectors == base[0]:
        return 'ok', val.selectors, base[1]
    res = []
    for d in docs:
        st2, r = monitors.guarded_call(val.select, d)
        res.append([id(x) for x in r] if st2 == 'ok' else ('raise', type(r).__name__ if r is not None else 'budget'))
    return 'ok', val.selectors, res


def run_unit(u):
    import warnings
    import soupsieve as sv
    warnings.simplefilter('ignore')
    rng = random.Random(u['seed'])
    res = {'evals': 0, 'sigs': [], 'viol': [], 'samples': [], 'counters': {}}
    cn = res['counters']
    sigs = set()
    cfg = _cfg()
    docs = probe_docs()

    def bump(k, n=1):
        cn[k] = cn.get(k, 0) + n

    for _ in range(u['n']):
        ast = sels.gen_list(rng, rng.choice([0, 1, 1, 2]), cfg)
        toks = respell.classify(sels.tok_list(ast))
        canon = respell.render(toks, rng, {})
        st, base_sel, base_res = observe(sv, canon, docs)
        if st != 'ok':
            # the canonical rendering itself is rejected: either the generator produced something invalid (harness
            # fault) or compile raises on a valid selector; both must be looked at, neither is a respelling witness
            bump('canonical_rejected')
            if len(res['viol']) < 4 and cn['canonical_rejected'] <= 3:
                res['viol'].append({'what': 'canonical rendering rejected: compile(%s) -> %r' % (ascii(canon), base_sel),
                                    'selector': canon, 'canon': canon, 'class': sig('canon-rejected')})
            continue
        bump('selectors')
        jobs = []
        for i, t in enumerate(toks):
            for rule in respell.applicable(t):
                jobs.append(('single:' + rule + ':' + t[0], {i: {rule}}))
        for _c in range(u['combos']):
            active = {}
            dens = rng.choice([.15, .4, .8, 1.0])
            for i, t in enumerate(toks):
                rs = {r for r in respell.applicable(t) if rng.random() < dens}
                if rs:
                    active[i] = rs
            jobs.append(('combo', active))
        for label, active in jobs:
            text = respell.render(toks, rng, active)
            res['evals'] += 1
            bump('rule:' + label.split(':')[1] if ':' in label else 'rule:combo')
            if text == canon:
                bump('identical_text')
                continue
            st2, s2, r2 = observe(sv, text, docs, (base_sel, base_res))
            ok = st2 == 'ok' and s2 == base_sel and r2 == base_res
            if ok:
                bump('nontrivial')
                sigs.add(sig(canon, text))
                if len(res['samples']) < 2 and label == 'combo':
                    res['samples'].append({'canonical': canon, 'respelled': text})
                continue
            bump('VIOL')
            if len(res['viol']) < 8:
                # shrink: drop active slots while the respelling still differs
                act = {k: set(v) for k, v in active.items()}
                seed = rng.randrange(1 << 30)

                def differs(a):
                    t3 = respell.render(toks, random.Random(seed), a)
                    s3 = observe(sv, t3, docs)
                    return not (s3[0] == 'ok' and s3[1] == base_sel and s3[2] == base_res), t3
                d0, t0 = differs(act)
                if d0:
                    for k in list(act):
                        trial = {kk: vv for kk, vv in act.items() if kk != k}
                        if differs(trial)[0]:
                            act = trial
                    text = differs(act)[1]
                    st2, s2, r2 = observe(sv, text, docs)
                why = ('raises %s: %s' % (type(s2).__name__, str(s2)[:100])) if st2 == 'raise' else (
                    'exceeds the CPU budget' if st2 == 'budget' else ('compiles to a different structure' if s2 != base_sel
                                                                      else 'selects different elements'))
                rules = sorted({r for v in act.values() for r in v})
                res['viol'].append({'what': 'respelling %s of %s %s (rules %s)' % (ascii(text), ascii(canon), why, rules),
                                    'selector': text, 'canon': canon, 'rules': rules,
                                    'class': sig(why.split(':')[0][:40], rules)})
    res['sigs'] = list(sigs)
    return res


def replay(w):
    import warnings
    import soupsieve as sv
    warnings.simplefilter('ignore')
    docs = probe_docs()
    a = observe(sv, w['canon'], docs)
    b = observe(sv, w['selector'], docs)
    if w['canon'] == w['selector']:
        return None if a[0] == 'ok' else dict(w, status_now='canonical still rejected: %r' % (a[1],))
    if a[0] == 'ok' and b[0] == 'ok' and a[1] == b[1] and a[2] == b[2]:
        return None
    return dict(w, status_now='still differs (%s / %s)' % (a[0], b[0]))


def inconclusive(cn, tier):
    out = []
    if cn.get('nontrivial', 0) < (40000 if tier == 'quick' else 1000000):
        out.append('too few effective respellings: %d' % cn.get('nontrivial', 0))
    for r in ('ws', 'esc', 'quote', 'case', 'combo'):
        if cn.get('rule:' + r, 0) < 1000:
            out.append('rule %s applied only %d times' % (r, cn.get('rule:' + r, 0)))
    if cn.get('canonical_rejected', 0) > cn.get('selectors', 0) // 50:
        out.append('generator produces too many selectors whose canonical rendering is rejected: %d' % cn.get('canonical_rejected', 0))
    return out
