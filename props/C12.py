"""C12 - namespace selectors compare namespace URIs through the supplied prefix map.

Oracle: the reference namespace rules (vlib/refsel.py: m_tag / attr_value) evaluated on a snapshot of the same tree,
with the caller's prefix map.  Run on namespace-aware documents only (lxml-xml, API-built XML, html5lib) - the
statement's quantifier.
Workload: XML documents with default, prefixed, redeclared, undeclared and un-declared-default namespaces on elements
and attributes, html5lib documents with SVG/MathML/xlink; caller maps that reuse the document's prefixes for other
URIs, swap them, omit them, add '' (also '' -> ''); every selector form (ns|E *|E |E E ns|* *|* |* *, [ns|a] [*|a]
[|a] [a] with operators) at top level and inside :is/:not/:has/:nth-child(of S).
"""
import random

from vlib import inplace, cases, monitors, sels, shrink, trees
from vlib.runner import sig
from vlib.trees import E, T, NS_MATHML, NS_SVG, NS_XHTML, NS_XLINK

ID = 'C12'
LEVEL = 'exploration'
ANCHORS = ['CSSMatch.match_namespace', 'CSSMatch.get_tag_ns', 'CSSMatch.match_attribute_name', '_DocumentNav.split_namespace',
           'CSSParser.parse_tag_pattern', 'CSSParser.parse_attribute_selector', 'CSSParser.parse_combinator', 'Namespaces.__init__']
RULE = ('random XML trees whose elements/attributes draw (prefix, URI) from an in-scope declaration map with default, '
        'prefixed, redeclared and undeclared-default namespaces (parsed by lxml-xml and built through the bs4 API) and '
        'html5lib documents with SVG/MathML/xlink; 10 caller maps per document family (None, empty, faithful, swapped, '
        'partial, foreign URIs, with default, default = other namespace, default = ""); selectors draw every element and '
        'attribute namespace form, at top level and inside :is/:not/:has/of S.  Non-trivial = expected set neither empty nor '
        'everything; distinct = distinct (selector shape, map index, tree shape).')
RULE += (' Round-4 additions: caller maps with a prefix spelled html (12-13 maps per family); half of the calls pass one long-lived dict object that the caller refills before each query.')
ASSUMPTIONS = [
    'run on namespace-aware documents only; attribute selectors never use an escaped colon nor the names xmlns/declared prefixes',
    'with a default namespace in the map, a top-level compound that is not the subject and has no type selector is '
    'unspecified when the element is outside the default namespace (CSS applies the default namespace there, soupsieve '
    'documents it for the subject only)',
    'prefixes that occur in the document are never compared: only URIs from the caller map count',
]

NS1, NS2, NS3, D1 = 'urn:v:1', 'urn:v:2', 'urn:v:3', 'urn:v:default'
NAMES = ['a', 'b', 'p', 'item']
ANAMES = ['href', 'at', 'title']
MAPS_XML = [None, {}, {'p1': NS1, 'p2': NS2, 'p3': NS3, 'd': D1}, {'p1': NS2, 'p2': NS1}, {'p1': NS1}, {'p1': 'urn:other', 'p2': NS3},
            {'p1': NS1, 'p2': NS2, '': D1}, {'p1': NS1, '': NS1}, {'p2': NS2, '': ''}, {'x': NS1, 'y': D1, '': NS2},
            {'html': NS1, 'p2': NS2}, {'html': NS_XHTML, 'p1': NS1}]
MAPS_H5 = [None, {}, {'svg': NS_SVG, 'math': NS_MATHML, 'xl': NS_XLINK, 'h': NS_XHTML}, {'svg': NS_MATHML, 'math': NS_SVG},
           {'svg': NS_SVG}, {'svg': NS_SVG, '': NS_XHTML}, {'h': NS_XHTML, '': NS_SVG}, {'xl': NS_XLINK, '': ''},
           {'p1': NS_SVG, 'p2': NS_XLINK, '': NS_XHTML}, {'svg': 'urn:other'},
           # a caller's prefix spelled like the one soupsieve uses internally for its HTML-only selector lists
           {'html': NS_SVG, 'h': NS_XHTML}, {'html': NS_XHTML, 'svg': NS_SVG}, {'html': NS_MATHML, '': NS_XHTML},
           # URIs are compared exactly: these differ from the real ones in letter case only
           {'svg': NS_SVG.replace('svg', 'SVG'), 'h': NS_XHTML.upper()}, {'': NS_XHTML.replace('xhtml', 'XHTML'), 'svg': NS_SVG}]


def plan(tier, seed):
    n = 96 if tier == 'quick' else 1600
    per = 150 if tier == 'quick' else 400
    return [{'seed': seed * 60013 + i, 'n': per} for i in range(n)]


def gen_xml(rng):
    budget = [rng.randint(2, 16)]

    def el(scope, depth):
        budget[0] -= 1
        scope = dict(scope)
        e = E(rng.choice(NAMES))
        r = rng.random()
        if r < .15 and depth > 0:
            # redeclare a prefix / the default namespace on this element
            which = rng.choice(['p1', 'p2', ''])
            # a prefix never shares its URI with the in-scope default namespace: bs4 then drops the prefix of such an
            # attribute and reports a namespaced attribute under a bare name (DESIGN.md section 3)
            uri = rng.choice([NS3, NS1, NS2]) if which else rng.choice([D1, 'urn:v:default2', ''])
            e.nsdecl[which] = uri
            scope[which] = uri
        choice = rng.choice(['default', 'default', 'p1', 'p2', 'undeclared'])
        if choice == 'default':
            e.prefix = None
            e.ns = scope.get('') or None
        elif choice in scope:
            e.prefix, e.ns = choice, scope[choice]
        elif choice == 'undeclared':
            e.prefix = None
            e.ns = scope.get('') or None
        for _ in range(rng.choice([0, 0, 1, 1, 2, 3])):
            an = rng.choice(ANAMES)
            rr = rng.random()
            v = rng.choice(['x', 'y', 'x y', ''])
            if rr < .45:
                e.attrs[an] = v
            elif rr < .7 and 'p1' in scope:
                e.attrs[('p1', an, scope['p1'])] = v
            elif rr < .9 and 'p2' in scope:
                e.attrs[('p2', an, scope['p2'])] = v
            else:
                e.attrs[('xml', 'lang', trees.NS_XML)] = 'en'
        if rng.random() < .3:
            e.attrs['class'] = 'x'
        while budget[0] > 0 and depth < 4 and rng.random() < .65:
            e.kids.append(el(scope, depth + 1))
        return e
    root_scope = {'p1': NS1, 'p2': NS2}
    if rng.random() < .6:
        root_scope[''] = D1
    root = E('root', nsdecl=dict(root_scope))
    root.ns = root_scope.get('') or None
    while budget[0] > 0:
        root.kids.append(el(root_scope, 1))
    return root


def gen_h5(rng):
    def svg(depth):
        e = E(rng.choice(['svg', 'a', 'circle', 'g', 'title']) if depth else 'svg')
        if rng.random() < .5:
            e.attrs[('xlink', 'href', NS_XLINK)] = rng.choice(['x', 'y'])
        if rng.random() < .4:
            e.attrs['href'] = rng.choice(['x', 'y'])
        if rng.random() < .3:
            e.attrs['class'] = 'x'
        while depth < 3 and rng.random() < .5:
            e.kids.append(svg(depth + 1))
        return e

    def html(depth):
        e = E(rng.choice(['p', 'a', 'div', 'title', 'span', 'input', 'option']))
        if e.name == 'input':
            e.attrs.update({'type': rng.choice(['checkbox', 'radio', 'text']), 'checked': ''} if rng.random() < .7 else {'disabled': ''})
            return e
        if e.name == 'option' and rng.random() < .6:
            e.attrs['selected'] = ''
        if rng.random() < .4:
            e.attrs['href'] = rng.choice(['x', 'y'])
        if rng.random() < .3:
            e.attrs['class'] = 'x'
        while depth < 3 and rng.random() < .55:
            r = rng.random()
            e.kids.append(svg(0) if r < .25 else (E('math', {}, [E('mi', {}, [T('text', 'x')])]) if r < .35 else html(depth + 1)))
        return e
    body = E('body', {}, [html(0) for _ in range(rng.randint(1, 3))])
    return E('html', {}, [E('head', {}, [E('title', {}, [T('text', 't')])]), body])


PCS = ['checked', 'link', 'any-link', 'disabled', 'enabled', 'required', 'optional', 'read-only', 'default']


def pc_ext(ref, e, p):
    """HTML-only pseudo-classes: never in a document that is not HTML; in an HTML document the three simplest are modelled
    (they are defined on HTML-namespace elements, whatever the caller's prefix map says - in particular its default entry),
    the others are left to the reference-free select-vs-match law."""
    if not ref.is_html:
        return False
    name = p[1]
    if name not in ('link', 'any-link', 'checked'):
        return None
    if ref.ns_aware and e.ns != NS_XHTML:
        return False
    nm = e.name if ref.is_xml else e.name.lower()

    def has(a):
        return any(ans is None and (k if ref.is_xml else k.lower()) == a for (k, ans, alocal, v) in e.attrs)

    def val(a):
        for (k, ans, alocal, v) in e.attrs:
            if ans is None and (k if ref.is_xml else k.lower()) == a:
                return v
        return None
    if name in ('link', 'any-link'):
        return nm in ('a', 'area') and has('href')
    if nm == 'option':
        return has('selected')
    if nm == 'input' and has('checked'):
        t = val('type')
        return isinstance(t, str) and (t if ref.is_xml else t.lower()) in ('checkbox', 'radio')
    return False


def _cfg(prefixes, aprefixes, names, anames, default_in_map):
    return sels.Cfg(names=names, attrs=anames, vals=['x', 'y', 'x y', ''], ids=['x'], classes=['x'], tag_prefixes=prefixes,
                    attr_prefixes=aprefixes, p_tag=.6 if not default_in_map else .75, p_star=.2, p_id=0, p_class=.2, p_attr=.45,
                    p_struct=.08, p_more=.35, p_logical=.3, flags=[None],
                    extra=[(.06, lambda r, d: ('nth', 'nth-child', r.choice([0, 2]), 1,
                                               [[{'tag': (r.choice(prefixes), r.choice(names))}]], None)),
                           (.06, lambda r, d: ('nth', r.choice(['nth-child', 'nth-last-child']), r.choice([0, 1, 2]), r.choice([1, 2]),
                                               [[{'tag': None, 'ids': [], 'classes': ['x'], 'attrs': [], 'pseudos': []} if r.random() < .6 else
                                                 {'tag': None, 'ids': [], 'classes': [], 'attrs': [(None, r.choice(anames), None, None, None)], 'pseudos': []}]],
                                               None)),
                           (.12, lambda r, d: ('pc', r.choice(PCS)))])


def run_unit(u):
    import soupsieve as sv
    rng = random.Random(u['seed'])
    res = {'evals': 0, 'sigs': [], 'viol': [], 'samples': [], 'counters': {}}
    cn = res['counters']
    sigs = set()
    live = {}

    def bump(k, n=1):
        cn[k] = cn.get(k, 0) + n

    for _ in range(u['n']):
        if rng.random() < .7:
            root = gen_xml(rng)
            how = rng.choice(['xml', 'xml', 'api-xml'])
            if rng.random() < .12:
                how += '+graft'        # an html.parser-made element moved into the XML tree: the document is still XML
                bump('grafted_trees')
            maps = MAPS_XML
            pf = [None, None, 'p1', 'p2', 'p3', '*', '', 'x', 'nope', 'html']
            names, anames = NAMES + ['root'], ANAMES + ['lang', 'class']
        else:
            root = gen_h5(rng)
            how = 'html5lib'
            maps = MAPS_H5
            pf = [None, None, 'svg', 'math', 'h', '*', '', 'p1', 'nope', 'html', 'html']
            names, anames = ['svg', 'a', 'circle', 'p', 'title', 'mi', 'div', 'g'], ['href', 'class']
        apf = [None, None] + [p for p in pf if p is not None] + (['xl', 'p2'] if how == 'html5lib' else ['xml'])
        for mi in rng.sample(range(len(maps)), 4):
            nsmap = maps[mi]
            if isinstance(nsmap, dict) and 'html' in nsmap:
                bump('maps_with_a_prefix_named_html')
            try:
                case = cases.Case([root], how, ['doc'] if rng.random() < .7 else ['el', rng.randrange(1000)], nsmap=nsmap, ext={'pc': pc_ext})
            except Exception:  # noqa: BLE001
                bump('materialise_failed')
                continue
            if rng.random() < .5:
                case.live_ns = live        # the caller re-uses one dict object for all its queries
                bump('live_map_calls')
            if not (case.is_xml or (case.top_sn.kind == 'doc' and any(k.kind == 'el' and k.ns == NS_XHTML for k in case.top_sn.kids))):
                bump('not_namespace_aware')
                continue
            cfg = _cfg(pf, apf, names, anames, bool(nsmap) and '' in nsmap)
            # a custom alias selects what its definition selects - also when the definition has type-less compounds, the map has a
            # default namespace and the outer compound names a namespace itself (`X:--m` == `X:is(definition)`; the right-hand side is
            # what the reference sweep above judges)
            if isinstance(nsmap, dict) and rng.random() < .5:
                prefixes = [k for k in nsmap if k] or ['nope']
                defs = ['.x', '[at]', ':not(.x)', '.x, [title]', '*|*.x', 'a.x, .x', ':not(a)', '[href], .x', ':is(.x)', '.x > *', '* > .x']
                for _c in range(3):
                    d_ = rng.choice(defs)
                    outer = rng.choice(['*|*', '*|*', '%s|*' % rng.choice(prefixes), '%s|a' % rng.choice(prefixes), '|b', '', 'a', '*', ':not(|zz)'])
                    tgt_ = case.target_obj
                    s1, r1 = monitors.guarded_call(sv.select, outer + ':--m', tgt_, case.ns_arg(), custom={':--m': d_})
                    s2, r2 = monitors.guarded_call(sv.select, outer + ':is(' + d_ + ')', tgt_, case.ns_arg())
                    bump('custom_alias_laws')
                    res['evals'] += 1
                    if s1 == 'ok' and s2 == 'ok' and r1:
                        bump('custom_alias_nontrivial')
                    if (s1, [id(x) for x in r1] if s1 == 'ok' else type(r1).__name__) != (s2, [id(x) for x in r2] if s2 == 'ok' else type(r2).__name__):
                        bump('VIOL')
                        if len(res['viol']) < 8:
                            what = 'custom alias: select(%r, namespaces=%r, custom={":--m": %r}) gives %s but %r gives %s on %s' % (
                                outer + ':--m', nsmap, d_, cases.labels(r1) if s1 == 'ok' else r1, outer + ':is(' + d_ + ')',
                                cases.labels(r2) if s2 == 'ok' else r2, trees.describe(case.soup, 200))
                            res['viol'].append(case.witness(None, outer + ':--m', what, **{'class': sig('custom-alias', how, outer[:3], d_), 'custom_alias': [outer, d_]}))
            # one dict object edited in place between consecutive calls, nothing else compiled in between (vlib/inplace.py)
            if isinstance(nsmap, dict) and nsmap and rng.random() < .6:
                pool = [NS1, NS2, NS3, D1] if how != 'html5lib' else [NS_SVG, NS_MATHML, NS_XHTML, NS_XLINK]
                ast = sels.gen_list(rng, rng.choice([0, 1, 1]), cfg)
                keep = case.nsmap
                r = inplace.sequence(sv, rng, case, ast, sels.render(ast), nsmap, pool)
                case.nsmap = keep
                bump('inplace_sequences')
                bump('inplace_compared', r.get('n', 0))
                res['evals'] += r.get('n', 0)
                if not r.get('ok'):
                    bump('VIOL')
                    if len(res['viol']) < 8:
                        res['viol'].append(case.witness(ast, r['text'], r['what'], **{'class': sig('inplace', how, r['what'][:8]), 'inplace': r['maps']}))
            for _s in range(6):
                ast = sels.gen_list(rng, rng.choice([0, 1, 1, 2]), cfg)
                st, info = cases.compare_select(sv, case, ast, cases.respelled(rng, ast, .1), match_law=True)
                res['evals'] += 1
                bump('how:' + how)
                bump('map:%d' % mi)
                if info.get('match_law_checked'):
                    bump('match_law_checked')
                if st == 'unspec':
                    bump('unspecified')
                    continue
                if st == 'agree':
                    if info['nontrivial']:
                        bump('nontrivial')
                        sigs.add(sig(sels.shape(ast), mi, how, cases.tree_shape(case.top_sn)))
                        if len(res['samples']) < 2:
                            res['samples'].append({'selector': info['text'], 'namespaces': nsmap, 'how': how,
                                                   'markup': trees.describe(case.soup, 260), 'selected': info['n_exp']})
                    continue
                bump('VIOL')
                if len(res['viol']) < 8:
                    target = case.target

                    def fails(tops, a, how=how, target=target, nsmap=nsmap, st=st):
                        c2 = cases.Case(tops, how, target, nsmap=nsmap, ext={'pc': pc_ext})
                        return cases.compare_select(sv, c2, a, match_law=True)[0] == st
                    try:
                        stops, sast = shrink.shrink([root], ast, fails, budget=250)
                        scase = cases.Case(stops, how, target, nsmap=nsmap, ext={'pc': pc_ext})
                        sst, sinfo = cases.compare_select(sv, scase, sast, match_law=True)
                        if sst != st:
                            scase, sast, sinfo = case, ast, info
                    except Exception:  # noqa: BLE001
                        scase, sast, sinfo = case, ast, info
                    what = '%s: select(%r, namespaces=%r) on %s document %s' % (st, sinfo['text'], nsmap, how, trees.describe(scase.soup, 260))
                    what += (' -> got %s, namespace rules say %s' % (sinfo.get('got'), sinfo.get('exp'))) if st == 'DISAGREE' else ' -> ' + sinfo.get('exc', '')
                    res['viol'].append(scase.witness(sast, sinfo['text'], what, **{'class': sig(st, how, sels.shape(sast))}))
    res['sigs'] = list(sigs)
    return res


def replay(w):
    import soupsieve as sv
    tops = cases.rebuild(w)
    case = cases.Case(tops, w['how'], w['target'], nsmap=w.get('nsmap'), ext={'pc': pc_ext})
    if w.get('custom_alias'):
        outer, d_ = w['custom_alias']
        r1 = sv.select(outer + ':--m', case.target_obj, w.get('nsmap'), custom={':--m': d_})
        r2 = sv.select(outer + ':is(' + d_ + ')', case.target_obj, w.get('nsmap'))
        return None if [id(x) for x in r1] == [id(x) for x in r2] else dict(w, status_now='alias %s vs spelled-out %s' % (cases.labels(r1), cases.labels(r2)))
    if w.get('inplace'):
        from vlib import sels as _s
        import random as _r
        r = inplace.sequence(sv, _r.Random(0), case, w['ast'], w['selector'], w['inplace'][0], [NS1, NS2, NS3, D1], steps=6)
        for seed in range(1, 40):
            if not r.get('ok'):
                break
            r = inplace.sequence(sv, _r.Random(seed), case, w['ast'], w['selector'], w['inplace'][0], [NS1, NS2, NS3, D1], steps=6)
        return None if r.get('ok') else dict(w, status_now=r['what'])
    st, info = cases.compare_select(sv, case, w['ast'], w.get('selector'), match_law=True)
    if st in ('agree', 'unspec'):
        return None
    return dict(w, status_now=st, observed=info)


def inconclusive(cn, tier):
    out = []
    if cn.get('nontrivial', 0) < (10000 if tier == 'quick' else 300000):
        out.append('too few non-trivial comparisons: %d' % cn.get('nontrivial', 0))
    for h in ('xml', 'api-xml', 'html5lib'):
        if cn.get('how:' + h, 0) < 500:
            out.append('%s compared only %d times' % (h, cn.get('how:' + h, 0)))
    if cn.get('unspecified', 0) > cn.get('nontrivial', 0) * 3:
        out.append('too many unspecified cases (%d)' % cn.get('unspecified', 0))
    return out
