"""C07 - selector parsing time is polynomially bounded in the input length (bounded restatement).

A runtime monitor cannot decide "for all n"; the property is restated as three observable rules over pumped families
prefix + pump*k + suffix (selector text) and over pumped document values (attribute values, class strings, language
tags, numbers/dates, text):
  (i)   CPU time < 2 s for every input of at most 64 characters;
  (ii)  whenever t(n) >= 10 ms, t(2n)/t(n) <= 32 (degree <= 5), doubling up to 2048 (quick) / 8192 (thorough)
        characters of selector text and 16 k / 128 k characters of document data;
  (iii) no single call on such an input exhausts a 20 s CPU budget.
Monitor: time.thread_time() around the call (minimum of repeated runs, cache purged), under ITIMER_VIRTUAL; verdicts
are on CPU seconds and ratios, never wall-clock.
"""
import random
import time

from vlib import monitors
from vlib.runner import sig

ID = 'C07'
LEVEL = 'exploration'
ANCHORS = ['CSSParser.selector_iter', 'SelectorPattern.match', 'SpecialPseudoPattern.match', 'css_unescape',
           'CSSMatch.match_attributes', 'CSSMatch.extended_language_filter', 'Inputs.parse_value', 'CSSMatch.get_classes']
RULE = ('attack-string synthesis at run time: for each of ~90 valid constructs (one per token kind and sub-pattern), every '
        'truncation point x pumps (the last 1-8 characters before the cut + a dictionary of lexical atoms incl. hex-letter '
        'escapes, blanks, comments, list items, quotes) x terminators {nothing, "!", "|!", newline, wrong closing bracket}; '
        'every family is timed at <= 64 characters (rule i), the slowest and a random sample are doubled (rules ii, iii); '
        'custom-selector tables of 7 reference shapes (chain, diamond, fan, ...) grown by levels; document side: every attribute operator/flag, class, :lang, range and text pseudo-class against pumped values.  '
        'Non-trivial = a family whose 64-character member takes the tokenizer past the pumped region (time above the '
        'unit median); distinct = distinct (prefix, pump, terminator) or (selector, value pump).')
ASSUMPTIONS = [
    'polynomial is restated as growth ratio <= 32 per doubling once a call costs >= 10 ms, and <= 20 CPU-seconds absolute',
    'CPU time of the calling thread is the cost measure (time.thread_time, ITIMER_VIRTUAL); no step counter exists inside '
    'the C regex engine',
    'blow-ups that need a prefix not derivable from a valid construct are out of reach',
]

CONSTRUCTS = [
    'a', 'ns|a', '*|*', '#id', '.cls', '[attr]', '[a=bcd]', '[a="bcd"]', "[a='bcd']", '[a="b\\"c" i]', "[a='b' s]", '[ns|a~=b]',
    '[*|a|=b]', '[a^="b c"]', '[a$=b]', '[a*=b]', '[a!=b]', '[ a = b i ]', ':root', ':first-child', ':is(a, b)', ':not(a b)',
    ':where(a > b)', ':matches(a)', ':has(> a, + b)', ':nth-child(2n+1)', ':nth-child(2n + 1 of a, b)', ':nth-last-child(-n+3)',
    ':nth-of-type(even)', ':nth-last-of-type(5)', ':lang(en, "de-*", fr)', ':lang("a\\"b")', ':dir(rtl)',
    ':-soup-contains("x y", z, \'w\')', ':-soup-contains-own(xy)', ':contains("a")', ':current(a, b)', ':host(a)',
    ':host-context(a)', 'a > b + c ~ d e', 'a , b , c', '&', ':scope', '::before', '@Pmedia', ':--custom-name',
    '/* c */ a /* d */ > /* e */ b', 'a\\:b\\61 c', '\\31 a\\', '#a\\62 c.d\\e', 'a /* x */', '[a="b\\\nc"]', '[a=b\\ c]',
    ':nth-child( 2n + 1 )', ':is(:not(:has(a)))', 'a:is(b):not(c):where(d)', '[a][b][c]', '.a.b.c', '#a#b', 'a|b', '|a',
    ':lang(\\*-de)', ':LANG(EN)', ':NTH-CHILD(ODD)', ':Is(a)', '[a="x" I]', ':nth-child(-n+3 of :is(a))', ':has(a):has(b)',
    'a\tb\nc\r\nd\fe', 'a>b', 'a+b', 'a~b', 'a,b', ':not(a,b)', ':is(a,)', ':where()', ':nth-child(odd of a)', ':dir(ltr)',
    '[a|="b-c"]', "[a~='b']", ':-soup-contains(a, b, c, d)', ':lang(a,b,c)', 'a /**/ /**/ b', ':host(a b)', 'a:--x:--y',
    '[data-a="\\\'"]', ':lang("")', 'é.ü#ö', '\\110000', '-a--b', '--a', '-\\-',
]
ATOMS = ['--a', '-a', '--a,', '-a,', 'a', '\\a', '\\61 ', '\\aaaaaa', '\\abcdef', '\\aa', '\\1f', ' ', '\t', '\n', '/**/', '/* x */', 'aa,', '"a",', "'", '"', '\\\\',
         '\\"', '(', ')', '[', ']', ',', ', ', '>', ' > ', '-', '--', ':', '*', '|', 'n', '+', '1', '\\', '\\\n', 'a ', ' a', 'é', '.a', '#a',
         ':a', ':is(', ':not(a)', '[a]', '\r\n', '\f']
TERMS = ['', '!', '|!', '\n', ']', ')', '"', '}']
SEPS = [',', ' ,', ', ', ' , ', ' ', '  ', '\t', '\n', '/**/', ' /**/ ', '>', ' > ', '+', '~', '|', '=', ' =', '(', ')', ' )', '\r\n']

DOC_SELECTORS = ['[a=x]', '[a~=x]', '[a|=x]', '[a^=x]', '[a$=x]', '[a*=x]', '[a!=x]', '[a~=x i]', '[a$=x i]', '[a*="x y" i]',
                 '[a|=x s]', '[a="x\\a y"]', '[a]', '.x', '.x.y', '#x', '[type=x]', '[a~="x-y"]', '[a*=" "]', '[a$=" x"]']
DOC_PUMPS = ['x', ' ', 'x ', ' x', '\t', '\n', 'x-', '-', 'y', 'xy ', ' \t', 'xx y', '\r\n', 'é', 'X']
DOC_TAILS = ['', 'x', 'y', ' ', '!', ' x', 'x ']
LANG_SEL = [':lang(en)', ':lang("*-x")', ':lang("en-*-x")', ':lang("*")', ':lang("")', ':lang(en, de, fr)']
LANG_PUMPS = ['a-', 'en-', '*-', 'x-', '-', 'a', '1-', 'aa-bb-']
RANGE_TYPES = ['number', 'range', 'date', 'month', 'week', 'time', 'datetime-local']
VALID_PREFIXES = {'time': ['12:30', '12:30:15', '12:30:15.', '12:'], 'datetime-local': ['2020-06-15T12:30', '2020-06-15T12:30:15.', '2020-06-15T'],
                  'date': ['2020-06-15', '2020-06-'], 'week': ['2020-W10', '2020-W'], 'month': ['2020-06', '2020-'], 'number': ['1.', '-1', '.5', '1e'],
                  'range': ['1.', '5']}
RANGE_PUMPS = ['1', '0', '9', '.', '-', '1.', '-1', ':', 'T', 'W', '1-', ' ']
TEXT_SEL = [':-soup-contains(x)', ':-soup-contains-own(x, y)', ':dir(ltr)', ':empty', ':placeholder-shown', ':read-write']


def plan(tier, seed):
    units = []
    per = 3 if tier == 'quick' else 2
    for i in range(0, len(CONSTRUCTS), per):
        units.append({'kind': 'sel', 'constructs': CONSTRUCTS[i:i + per], 'seed': seed * 1009 + i, 'tier': tier})
    for i in range(16 if tier == 'quick' else 48):
        units.append({'kind': 'doc', 'seed': seed * 1009 + 5000 + i, 'tier': tier, 'part': i, 'of': 16 if tier == 'quick' else 48})
    for i in range(len(CUSTOM_SHAPES)):
        units.append({'kind': 'custom', 'shape': i, 'seed': seed, 'tier': tier})
    return units


def _lvl(names, refs):
    return {n: ', '.join(refs) for n in names}


def custom_map(shape, levels):
    """A custom-selector table whose definitions refer to each other, `levels` deep; returns (map, pattern).  The text of the
    table grows linearly with `levels`, so must the time to compile a pattern that uses its first entry."""
    m = {}
    for i in range(levels):
        last = i == levels - 1
        if shape == 'chain':
            m[':--a%d' % i] = 'p' if last else ':--a%d' % (i + 1)
        elif shape == 'twice':
            m[':--a%d' % i] = 'p' if last else ':--a%d, :--a%d > b' % (i + 1, i + 1)
        elif shape == 'diamond':
            for x in 'ab':
                m[':--%s%d' % (x, i)] = 'p' if last else ':--a%d, :--b%d' % (i + 1, i + 1)
        elif shape == 'diamond-compound':
            for x in 'ab':
                m[':--%s%d' % (x, i)] = 'p' if last else 'div:--a%d:--b%d' % (i + 1, i + 1)
        elif shape == 'fan3':
            for x in 'abc':
                m[':--%s%d' % (x, i)] = 'p' if last else ':is(:--a%d, :--b%d) :--c%d' % (i + 1, i + 1, i + 1)
        elif shape == 'nested-pseudo':
            for x in 'ab':
                m[':--%s%d' % (x, i)] = 'p' if last else ':not(:--a%d):has(:--b%d)' % (i + 1, i + 1)
        elif shape == 'skip':
            m[':--a%d' % i] = 'p' if i >= levels - 2 else ':--a%d, :--a%d' % (i + 1, i + 2)
    return m, ':--a0'


CUSTOM_SHAPES = ['chain', 'twice', 'diamond', 'diamond-compound', 'fan3', 'nested-pseudo', 'skip']


def timed(fn, budget):
    """CPU seconds of fn() (thread time), or None when the CPU budget is exhausted."""
    try:
        with monitors.cpu_budget(budget):
            t0 = time.thread_time()
            try:
                fn()
            except monitors.BudgetExceeded:
                raise
            except Exception:  # noqa: BLE001 - errors are C06/C08's business; their cost still counts
                pass
            return time.thread_time() - t0
    except monitors.BudgetExceeded:
        return None


def compile_cost(sv, pattern, budget, reps=1):
    best = None
    for _ in range(reps):
        sv.purge()
        t = timed(lambda: sv.compile(pattern), budget)
        if t is None:
            return None
        best = t if best is None else min(best, t)
    return best


def family(prefix, pump, term, total):
    k = max(1, (total - len(prefix) - len(term)) // max(1, len(pump)))
    return prefix + pump * k + term


def grow(measure, make, start, limit, label, viol, cn):
    """Rules (ii) and (iii) on one family: doubling series."""
    n = start
    prev = None
    while n <= limit:
        inp = make(n)
        t = measure(inp, 20.0, 2)
        cn['growth_points'] = cn.get('growth_points', 0) + 1
        size, shown = (len(inp), inp[:200]) if isinstance(inp, str) else (inp, label)
        if t is None:
            viol.append({'what': 'rule (iii): %s exhausts the 20 s CPU budget at size %d (previous point: %s)' % (
                label, size, ('%.4fs' % prev) if prev is not None else 'n/a'), 'selector': shown, 'n': n, 'label': label,
                'class': sig('budget', label[:60])})
            return
        if prev is not None and prev >= 0.010 and t / prev > 32:
            viol.append({'what': 'rule (ii): %s grows x%.1f for one doubling (%.4fs -> %.4fs at size %d)' % (
                label, t / prev, prev, t, size), 'selector': shown, 'n': n, 'label': label,
                'class': sig('ratio', label[:60])})
            return
        prev = t
        n *= 2


def run_unit(u):
    import warnings
    import soupsieve as sv
    warnings.simplefilter('ignore')
    rng = random.Random(u['seed'])
    res = {'evals': 0, 'sigs': [], 'viol': [], 'samples': [], 'counters': {}, 'notes': {}}
    cn = res['counters']
    viol = res['viol']
    sigs = set()
    quick = u['tier'] == 'quick'
    if u['kind'] == 'custom':
        shape = CUSTOM_SHAPES[u['shape']]

        def ccost(levels, budget, reps=1):
            m, pat = custom_map(shape, levels)
            best = None
            for _ in range(reps):
                sv.purge()
                t = timed(lambda: sv.compile(pat, custom=m), budget)
                if t is None:
                    return None
                best = t if best is None else min(best, t)
            return best
        # rule (i): a table of a few dozen characters
        for lv in (2, 3, 4, 5, 6):
            t = ccost(lv, 2.0)
            res['evals'] += 1
            cn['custom_tables_timed'] = cn.get('custom_tables_timed', 0) + 1
            if t is None or t >= 2.0:
                viol.append({'what': 'rule (i): compiling against a %d-level %s custom table needs >= 2 CPU-seconds' % (lv, shape),
                             'selector': ':--a0', 'custom_shape': [shape, lv], 'class': sig('custom-short', shape)})
                break
            sigs.add(sig('custom', shape, lv))
        label = 'compile(":--a0", custom=%s table of k levels)' % shape
        grow(lambda lv, b, r: ccost(lv, b, r), lambda n: n, 6, 48 if quick else 96, label, viol, cn)
        cn['custom_families_grown'] = cn.get('custom_families_grown', 0) + 1
        for v in viol:
            v.setdefault('custom_shape', [shape, v.get('n', 0)])
    elif u['kind'] == 'sel':
        limit = 2048 if quick else 8192
        fams = []
        for c in u['constructs']:
            for cut in range(0, len(c) + 1):
                prefix = c[:cut]
                pumps = {prefix[-k:] for k in range(1, 9) if len(prefix) >= k}
                pumps.update(rng.sample(ATOMS, 30) if quick else ATOMS)
                # composite pumps: two atoms in a row (an escape followed by a separator, a value followed by a comma, ...)
                for _ in range(16 if quick else 300):
                    pumps.add(rng.choice(ATOMS) + rng.choice(SEPS))
                    if rng.random() < .5:
                        pumps.add(rng.choice(ATOMS) + rng.choice(ATOMS))
                    if not quick and rng.random() < .3:
                        pumps.add(rng.choice(ATOMS) + rng.choice(SEPS) + rng.choice(ATOMS))
                for pump in pumps:
                    for term in (rng.sample(TERMS, 5) if quick else TERMS):
                        fams.append((prefix, pump, term))
        times = []
        for (prefix, pump, term) in fams:
            inp = family(prefix, pump, term, 64)
            t = compile_cost(sv, inp, 2.0)
            res['evals'] += 1
            cn['families_at_64'] = cn.get('families_at_64', 0) + 1
            if t is None or t >= 2.0:
                t2 = compile_cost(sv, inp, 4.0) if t is not None else None
                if t2 is None or t2 >= 2.0:
                    viol.append({'what': 'rule (i): compile of a %d-character pattern needs >= 2 CPU-seconds: %s' % (
                        len(inp), ascii(inp)), 'selector': inp, 'family': [prefix, pump, term], 'class': sig('short', prefix[:12], pump)})
                    if len(viol) >= 6:
                        break
                    continue
            times.append((t or 0.0, prefix, pump, term))
        times.sort(reverse=True)
        med = times[len(times) // 2][0] if times else 0
        for t, prefix, pump, term in times:
            if t > med:
                sigs.add(sig(prefix, pump, term))
        chosen = times[:16 if quick else 60] + rng.sample(times, min(len(times), 24 if quick else 200))
        for t, prefix, pump, term in chosen:
            if len(viol) >= 6:
                break
            label = 'compile(%s + %s*k + %s)' % (ascii(prefix), ascii(pump), ascii(term))
            grow(lambda s, b, r: compile_cost(sv, s, b, r), lambda n: family(prefix, pump, term, n), 128, limit, label, viol, cn)
            cn['families_grown'] = cn.get('families_grown', 0) + 1
        if times:
            res['samples'].append({'slowest_64_char_family': [ascii(x) for x in times[0][1:]], 'cpu_s': round(times[0][0], 6)})
            res['notes']['max_cpu_at_64'] = [round(times[0][0], 6)]
    else:
        import bs4
        limit = 16384 if quick else 131072
        soup = bs4.BeautifulSoup('<div><p a="" class="" lang="" type="">t</p><input min="" max="" value=""><textarea placeholder="p"></textarea></div>',
                                 'html.parser')
        p, inp_el, ta = soup.p, soup.input, soup.textarea
        jobs = []
        for s in DOC_SELECTORS:
            for pump in DOC_PUMPS:
                for tail in DOC_TAILS:
                    jobs.append(('attr', s, pump, tail))
        for s in LANG_SEL:
            for pump in LANG_PUMPS:
                for tail in ('', 'x', '-', '*'):
                    jobs.append(('lang', s, pump, tail))
        for ty in RANGE_TYPES:
            for pump in RANGE_PUMPS:
                for tail in ('', '1', 'x', '-01'):
                    jobs.append(('range', ty, pump, tail))
        for ty, prefixes in VALID_PREFIXES.items():
            for pre in prefixes:
                for pump in ('1', '0', '12', '.1', ':1', '-1', '1 ', '9'):
                    for tail in ('', 'Z', ' ', 'x'):
                        jobs.append(('range2', ty, pre + '\0' + pump, tail))
        for s in TEXT_SEL:
            for pump in ('x', ' ', 'ab ', '\n', 'א', 'y'):
                jobs.append(('text', s, pump, ''))
        jobs = [j for i, j in enumerate(jobs) if i % u['of'] == u['part']]
        compiled = {}

        def C(s):
            if s not in compiled:
                compiled[s] = sv.compile(s)
            return compiled[s]

        def setup(kind, s, pump, tail, n):
            v = pump.replace('\0', '') * max(1, (n - len(tail)) // max(1, len(pump))) + tail
            if kind == 'attr':
                for a in ('a', 'class', 'type', 'id'):
                    p[a] = v
                return lambda: C(s).match(p)
            if kind == 'lang':
                p['lang'] = v
                # long *range* too: compile a selector whose range is the pumped value
                if n <= 2048:
                    sel = ':lang("%s")' % v.replace('\\', '').replace('"', '')
                    return lambda: (C(s).match(p), sv.match(sel, p))
                return lambda: C(s).match(p)
            if kind == 'range2':
                pre, pmp = pump.split('\0')
                v2 = pre + pmp * max(1, (n - len(pre) - len(tail)) // len(pmp)) + tail
                inp_el['type'] = s
                inp_el['min'] = v2
                inp_el['max'] = pre
                inp_el['value'] = v2
                return lambda: (C(':in-range').match(inp_el), C(':out-of-range').match(inp_el))
            if kind == 'range':
                inp_el['type'] = s
                inp_el['min'] = v
                inp_el['max'] = v + '1'
                inp_el['value'] = '1' + v
                return lambda: (C(':in-range').match(inp_el), C(':out-of-range').match(inp_el))
            p.string = v
            ta.string = v
            p['dir'] = 'auto'
            return lambda: (C(s).match(p), C(s).match(ta))

        def cost(kind, s, pump, tail, n, budget, reps=1):
            f = setup(kind, s, pump, tail, n)
            best = None
            for _ in range(reps):
                t = timed(f, budget)
                if t is None:
                    return None
                best = t if best is None else min(best, t)
            return best

        times = []
        for (kind, s, pump, tail) in jobs:
            t = cost(kind, s, pump, tail, 64, 2.0)
            res['evals'] += 1
            cn['doc_families_at_64'] = cn.get('doc_families_at_64', 0) + 1
            if t is None or t >= 2.0:
                viol.append({'what': 'rule (i): %s on a 64-character %s value %s*k+%s needs >= 2 CPU-seconds' % (
                    s, kind, ascii(pump), ascii(tail)), 'selector': s, 'doc': [kind, s, pump, tail], 'class': sig('doc-short', kind, s)})
                if len(viol) >= 6:
                    break
                continue
            times.append((t, kind, s, pump, tail))
        times.sort(reverse=True)
        med = times[len(times) // 2][0] if times else 0
        for t, kind, s, pump, tail in times:
            if t > med:
                sigs.add(sig(kind, s, pump, tail))
        chosen = times[:8 if quick else 30] + rng.sample(times, min(len(times), 10 if quick else 50))
        for t, kind, s, pump, tail in chosen:
            if len(viol) >= 6:
                break
            label = '%s on %s value %s*k+%s' % (s, kind, ascii(pump), ascii(tail))
            grow(lambda n_, b, r: cost(kind, s, pump, tail, n_, b, r), lambda n: n, 128, limit, label, viol, cn)
            cn['doc_families_grown'] = cn.get('doc_families_grown', 0) + 1
        if times:
            res['samples'].append({'slowest_doc_family': [times[0][1], times[0][2], ascii(times[0][3]), ascii(times[0][4])],
                                   'cpu_s': round(times[0][0], 6)})
    if viol:
        cn['VIOL'] = len(viol)
    res['sigs'] = list(sigs)
    return res


def replay(w):
    import warnings
    import soupsieve as sv
    warnings.simplefilter('ignore')
    if 'family' in w:
        prefix, pump, term = w['family']
        inp = family(prefix, pump, term, 64)
        t = compile_cost(sv, inp, 4.0)
        if t is None or t >= 2.0:
            return dict(w, status_now='still >= 2 CPU-seconds')
        return None
    if 'custom_shape' in w:
        shape, lv = w['custom_shape']
        m, pat = custom_map(shape, max(2, int(lv)))
        sv.purge()
        t = timed(lambda: sv.compile(pat, custom=m), 20.0)
        m2, _ = custom_map(shape, max(2, int(lv) // 2))
        sv.purge()
        t2 = timed(lambda: sv.compile(pat, custom=m2), 20.0)
        if t is None or (lv <= 6 and t >= 2.0) or (t2 is not None and t2 >= 0.010 and t / t2 > 32):
            return dict(w, status_now='%s levels: %s s (half: %s s)' % (lv, t, t2))
        return None
    if 'doc' in w or 'label' in w:
        v = []
        if 'doc' in w or w.get('label', '').find(' value ') > 0:
            r = run_unit({'kind': 'doc', 'seed': 0, 'tier': 'quick', 'part': 0, 'of': 1})
            v = [x for x in r['viol'] if ('doc' in w and x.get('doc') == w['doc']) or x.get('label') == w.get('label')]
        else:
            inp = w['selector']
            t = compile_cost(sv, inp, 20.0)
            if t is None:
                v = [w]
        return dict(w, status_now='still violates') if v else None
    return None


def inconclusive(cn, tier):
    out = []
    if cn.get('families_at_64', 0) < (100000 if tier == 'quick' else 250000):
        out.append('too few selector families timed: %d' % cn.get('families_at_64', 0))
    if cn.get('custom_families_grown', 0) < len(CUSTOM_SHAPES):
        out.append('custom-table families: only %d' % cn.get('custom_families_grown', 0))
    if cn.get('doc_families_at_64', 0) < 1000:
        out.append('too few document-side families timed: %d' % cn.get('doc_families_at_64', 0))
    if cn.get('growth_points', 0) < 500:
        out.append('too few growth points: %d' % cn.get('growth_points', 0))
    return out


def extra_coverage(cn, notes, tier):
    return {'max_cpu_seconds_at_64_chars': max(notes.get('max_cpu_at_64', [0]) or [0])}
