"""C17 - HTML state pseudo-classes follow their definitions and partition laws.

Oracle: (a) the laws of the statement on identity sets returned by the real select() (disjointness, coverage,
:link = :any-link, :checked subset of :default, exactly one of :dir(ltr)/:dir(rtl), partitions) and (b) reference
definitions (vlib/refhtml.py: first submit button per form, radio groups, placeholder rule, range coverage through an
independent calendar), all evaluated inside the element's own document (iframe boundary); (c) select() membership
equals per-element match() (memo tables).
Known findings are recognised by mechanism: the observed set must equal the reference prediction with the finding's
defect-model switch on (and differ with it off); anything else is a new violation.
"""
import random

from vlib import htmlgen, known, monitors, refhtml, trees
from vlib.refhtml import attr, has, name, typ
from vlib.runner import sig
from vlib.trees import E, T, NS_XHTML

ID = 'C17'
LEVEL = 'exploration'
ANCHORS = ['CSSMatch.match_default', 'CSSMatch.match_indeterminate', 'CSSMatch.match_dir', 'CSSMatch.find_bidi', 'CSSMatch.match_range',
           'CSSMatch.match_placeholder_shown', '_DocumentNav.is_iframe', '_DocumentNav.get_descendants']
RULE = ('generated form documents (nested forms, fieldset/legend nesting with disabled, optgroup/option, controls with every type '
        'incl. case variants, name/checked/disabled/readonly/required/placeholder/contenteditable/dir combinations, radio groups '
        'inside/outside forms and across iframes, bidi text, dir=auto, twins) built through the bs4 API and parsed by html.parser, '
        'lxml, html5lib and (lower-case types) as XHTML; 17 pseudo-classes selected per document, 10 laws + 4 definitions + '
        'select-vs-match; per document the sets are obtained through one of six routes (module select, compiled object, pickled '
        'compiled object, deep-copied compiled object, BeautifulSoup.select, compiled match per element).  Non-trivial = a law/definition instance whose sets are non-empty; distinct = distinct (law, document shape).')
ASSUMPTIONS = [
    'input type=hidden is unspecified for the :enabled/:disabled coverage law; foreign (non-HTML-namespace) elements are outside '
    'the :read-write/:read-only and :dir laws',
    ':placeholder-shown: unknown type keywords and a textarea whose only content is one newline are unspecified',
    'range validity is compared for the string shapes the statement enumerates; the calendar of vlib/refhtml.py is the reference',
    'every button gets an explicit type (generator)',
]

SELS = [':enabled', ':disabled', ':required', ':optional', ':read-write', ':read-only', ':in-range', ':out-of-range', ':link', ':any-link',
        ':checked', ':default', ':dir(ltr)', ':dir(rtl)', ':indeterminate', ':placeholder-shown', ':root',
        # the same questions asked in other words / more than once per element inside one call
        'button:default', 'form button:default, button:default', 'button:is(:default, [type]:default)', ':has(> button:default)',
        'input:indeterminate, :indeterminate:not(progress)', ':dir(LTR)', ':dir(Rtl)', ':is(:disabled, :enabled):disabled']
KNOWN_TYPES = set(lower_ for lower_ in ['text', 'submit', 'radio', 'checkbox', 'hidden', 'number', 'range', 'date', 'week', 'time', 'month',
                                        'datetime-local', 'search', 'tel', 'url', 'email', 'password', 'button', 'reset', 'image', 'file',
                                        'color'])


def _plan0(tier, seed):
    n = 96 if tier == 'quick' else 1920
    per = 150 if tier == 'quick' else 350
    return [{'seed': seed * 27011 + i, 'n': per} for i in range(n)]


def plan(tier, seed):
    """... plus the shared 'lazy' units: iselect consumed step by step while the caller edits, between two items, exactly what
    this property's pseudo-classes depend on (vlib/lazy.py; the rest of the iteration must be what the selector designates on
    the tree as it is now)."""
    units = _plan0(tier, seed)
    themes = ['state', 'range']
    k = 16 if tier == 'quick' else 160
    units += [{'kind': 'lazy', 'theme': themes[i % len(themes)], 'seed': seed * 65521 + i, 'n': 60 if tier == 'quick' else 200} for i in range(k)]
    return units


def lowercase_types(tops):
    def rec(e):
        for a in ('type', 'dir', 'contenteditable'):
            if isinstance(e.attrs.get(a), str):
                e.attrs[a] = e.attrs[a].lower()
        for k in e.kids:
            if isinstance(k, E):
                rec(k)
    for t in tops:
        if isinstance(t, E):
            rec(t)


STATE_ATTRS = ('checked', 'disabled', 'type', 'name', 'required', 'readonly', 'placeholder', 'indeterminate', 'selected', 'href', 'dir',
               'contenteditable', 'min', 'max', 'value')


def upcase_names(rng, tops):
    """XHTML only: attribute names are case-sensitive there, so CHECKED="" is *not* the checked attribute."""
    def rec(e):
        for a in STATE_ATTRS:
            if a in e.attrs and rng.random() < .25:
                e.attrs[rng.choice([a.upper(), a.capitalize()])] = e.attrs.pop(a)
        for k in e.kids:
            if isinstance(k, E):
                rec(k)
    for t in tops:
        if isinstance(t, E):
            rec(t)


def build(rng):
    tops = htmlgen.gen_form_doc(rng, wrapper=True, max_nodes=28)
    how = rng.choice(['api', 'api', 'html.parser', 'html.parser', 'lxml', 'html5lib', 'xhtml'])
    if how == 'xhtml':
        lowercase_types(tops)
        if rng.random() < .4:
            upcase_names(rng, tops)
        html = [t for t in tops if isinstance(t, E)][0]
        html.nsdecl = {'': NS_XHTML}

        def setns(e):
            e.ns = NS_XHTML
            for k in e.kids:
                if isinstance(k, E):
                    setns(k)
        setns(html)
        return [html], 'xml', 'xhtml'
    return tops, how, how


VIAS = ['module', 'module', 'compiled', 'pickled', 'deepcopied', 'bs4', 'match-compiled']
_objs = {}


def selector_via(sv, sel, via):
    """The callable that selects - the laws must hold through every route a user can take to the same selector."""
    import copy
    import pickle
    if via == 'module':
        return lambda d: sv.select(sel, d)
    if via == 'bs4':
        return lambda d: d.select(sel)
    if (sel, via) not in _objs:
        c = sv.compile(sel)
        if via == 'pickled':
            c = pickle.loads(pickle.dumps(c, protocol=len(sel) % (pickle.HIGHEST_PROTOCOL + 1)))
        elif via == 'deepcopied':
            c = copy.deepcopy(c)
        _objs[(sel, via)] = c
    c = _objs[(sel, via)]
    if via == 'match-compiled':
        import bs4
        return lambda d: [e for e in d.descendants if isinstance(e, bs4.Tag) and c.match(e)]
    return c.select


def check_doc(sv, d, kind, open_keys, stats, via='module'):
    """Returns (violations, known-finding hits) as lists of dicts."""
    import bs4
    stats['via:' + via] = stats.get('via:' + via, 0) + 1
    refhtml.set_xml(kind == 'xhtml')
    els = [e for e in d.descendants if isinstance(e, bs4.Tag)]
    ID = {id(e): e for e in els}
    html_els = {i for i, e in ID.items() if kind != 'xhtml' or e.namespace == NS_XHTML}
    out, hits = [], []
    R = {}
    for sel in SELS:
        st, r = monitors.guarded_call(selector_via(sv, sel, via), d)
        if st != 'ok':
            stats['raised'] = stats.get('raised', 0) + 1
            R[sel] = None
        else:
            R[sel] = set(map(id, r))

    def lab(ids):
        return [('%s%s' % (ID[i].name, dict(ID[i].attrs))) [:90] for i in list(ids)[:4]]

    def law(nm, ok, info=None, nontrivial=True, known_key=None):
        stats['law:' + nm] = stats.get('law:' + nm, 0) + 1
        if nontrivial:
            stats['nontrivial'] = stats.get('nontrivial', 0) + 1
            stats.setdefault('_nontrivial_laws', []).append(nm)
        if ok:
            return
        rec = {'law': nm, 'info': info}
        if known_key:
            hits.append(dict(rec, key=known_key))
        else:
            out.append(rec)

    A = set(ID)
    if R[':enabled'] is not None and R[':disabled'] is not None:
        law('enabled/disabled disjoint', not (R[':enabled'] & R[':disabled']), lab(R[':enabled'] & R[':disabled']), bool(R[':enabled'] or R[':disabled']))
        ctr = {i for i, e in ID.items() if i in html_els and (name(e) in ('button', 'select', 'textarea', 'fieldset', 'optgroup', 'option') or
                                                              (name(e) == 'input' and typ(e) != 'hidden'))}
        hid = {i for i, e in ID.items() if name(e) == 'input' and typ(e) == 'hidden'}
        u = R[':enabled'] | R[':disabled']
        law('enabled/disabled cover the form controls', ctr <= u and u <= ctr | hid, lab((u ^ ctr) - hid), bool(ctr))
    if R[':required'] is not None and R[':optional'] is not None:
        t = {i for i, e in ID.items() if i in html_els and name(e) in ('input', 'select', 'textarea')}
        law('required/optional partition input, select, textarea', not (R[':required'] & R[':optional']) and (R[':required'] | R[':optional']) == t,
            lab((R[':required'] | R[':optional']) ^ t), bool(t))
    if R[':read-write'] is not None and R[':read-only'] is not None:
        law('read-write/read-only partition all elements', not (R[':read-write'] & R[':read-only']) and (R[':read-write'] | R[':read-only']) >= html_els
            and (R[':read-write'] | R[':read-only']) <= A, lab(html_els - (R[':read-write'] | R[':read-only'])), True)
    if R[':link'] is not None and R[':any-link'] is not None:
        law(':link = :any-link', R[':link'] == R[':any-link'], lab(R[':link'] ^ R[':any-link']), bool(R[':link']))
    if R[':checked'] is not None and R[':default'] is not None:
        law(':checked subset of :default', R[':checked'] <= R[':default'], lab(R[':checked'] - R[':default']), bool(R[':checked']))
        spec = refhtml.expected_default(els)
        got = R[':default'] - R[':checked']
        want = spec - R[':checked']
        if got != want:
            bail = refhtml.expected_default(els, nested_bail=True) - R[':checked']
            kk = 'nested-form-default' if (got == bail and 'nested-form-default' in open_keys) else None
            law(':default beyond :checked = first submit button of each form', False,
                {'extra': lab(got - want), 'missing': lab(want - got)}, True, kk)
        else:
            law(':default beyond :checked = first submit button of each form', True, None, bool(want))
    if R[':default'] is not None:
        btn = {i for i in R[':default'] if name(ID[i]) == 'button'} if kind != 'xhtml' else {i for i in R[':default'] if ID[i].name == 'button'}
        for sel in ('button:default', 'form button:default, button:default', 'button:is(:default, [type]:default)'):
            if R[sel] is not None:
                law('%s = the buttons among :default' % sel, R[sel] == btn, lab(R[sel] ^ btn), bool(btn))
        if R[':has(> button:default)'] is not None:
            par_ = {id(ID[i].parent) for i in btn if id(ID[i].parent) in ID}
            law(':has(> button:default) = parents of default buttons', R[':has(> button:default)'] == par_, lab(R[':has(> button:default)'] ^ par_), bool(par_))
    if R[':indeterminate'] is not None and R['input:indeterminate, :indeterminate:not(progress)'] is not None:
        np_ = {i for i in R[':indeterminate'] if (ID[i].name if kind == 'xhtml' else name(ID[i])) != 'progress'}
        law(':indeterminate asked twice', R['input:indeterminate, :indeterminate:not(progress)'] == np_,
            lab(R['input:indeterminate, :indeterminate:not(progress)'] ^ np_), bool(np_))
    if R[':disabled'] is not None and R[':is(:disabled, :enabled):disabled'] is not None:
        law(':disabled asked twice', R[':is(:disabled, :enabled):disabled'] == R[':disabled'], lab(R[':is(:disabled, :enabled):disabled'] ^ R[':disabled']),
            bool(R[':disabled']))
    for up, lo in ((':dir(LTR)', ':dir(ltr)'), (':dir(Rtl)', ':dir(rtl)')):
        if R[up] is not None and R[lo] is not None:
            law('%s = %s' % (up, lo), R[up] == R[lo], lab(R[up] ^ R[lo]), bool(R[lo]))
    if R[':dir(ltr)'] is not None and R[':dir(rtl)'] is not None:
        both = R[':dir(ltr)'] | R[':dir(rtl)']
        # "of a rooted document": the element's own document must hang off the document's root element (first top-level
        # element) or off an iframe; further top-level elements (parser artefacts, fragments) have no document element
        tops = [c for c in d.contents if isinstance(c, bs4.Tag)]
        first = tops[0] if tops else None
        rooted = set()
        for i in html_els:
            r = refhtml.docroot(ID[i])
            if r is first or (r.parent is not None and not isinstance(r.parent, bs4.BeautifulSoup) and name(r.parent) == 'iframe'):
                rooted.add(i)
        law('exactly one of :dir(ltr)/:dir(rtl)', not (R[':dir(ltr)'] & R[':dir(rtl)']) and both >= rooted, lab(rooted - both) or lab(R[':dir(ltr)'] & R[':dir(rtl)']), True)
    if R[':in-range'] is not None and R[':out-of-range'] is not None:
        def cover(week53):
            exp_in, exp_out, unspec = set(), set(), set()
            for i, e in ID.items():
                if i not in html_els or name(e) != 'input' or typ(e) not in refhtml.RANGE_TYPES:
                    continue
                mn, mx, v = attr(e, 'min'), attr(e, 'max'), attr(e, 'value')
                if any(x is not None and not isinstance(x, str) for x in (mn, mx, v)):
                    unspec.add(i)
                    continue
                o = refhtml.out_of_range(typ(e), mn, mx, v, week53)
                if o is None:
                    continue
                (exp_out if o else exp_in).add(i)
            return exp_in, exp_out, unspec
        ei, eo, un = cover(False)
        gi, go = R[':in-range'] - un, R[':out-of-range'] - un
        ok = not (R[':in-range'] & R[':out-of-range']) and gi == ei - un and go == eo - un
        kk = None
        if not ok:
            ei2, eo2, un2 = cover(True)
            if 'range-week53' in open_keys and gi == ei2 - un and go == eo2 - un and not (R[':in-range'] & R[':out-of-range']):
                kk = 'range-week53'
        law(':in-range/:out-of-range disjoint, cover the range inputs with a valid bound, ordered correctly', ok,
            {'in': lab(gi ^ (ei - un)), 'out': lab(go ^ (eo - un))}, bool(ei or eo), kk)
    if R[':indeterminate'] is not None:
        exp = {i for i in refhtml.expected_indeterminate(els) if i in html_els}
        # "or document, outside any form": with several top-level elements (lxml's rendering of nested <html>) it is not settled
        # whether the document is the element's own top-level tree or everything the soup holds - named radios without a form
        # owner are unspecified there
        amb = set()
        if len([c for c in d.contents if isinstance(c, bs4.Tag)]) > 1:
            amb = {i for i, e in ID.items() if name(e) == 'input' and typ(e) == 'radio' and attr(e, 'name') and refhtml.owner(e) is None and
                   isinstance(refhtml.docroot(e).parent, bs4.BeautifulSoup)}
        got_i = R[':indeterminate'] - amb
        exp -= amb
        law(':indeterminate definition', got_i == exp, {'extra': lab(got_i - exp), 'missing': lab(exp - got_i)}, bool(exp))
    if R[':placeholder-shown'] is not None:
        exp, unspec = set(), set()
        for i, e in ID.items():
            if i not in html_els:
                continue
            ph = attr(e, 'placeholder')
            if name(e) == 'textarea' and ph:
                # "no content": the text of the textarea, wherever the tree keeps it (html.parser and the bs4 API can hold
                # child elements inside a textarea; their text is content too)
                txt = ''.join(str(c) for c in e.descendants if isinstance(c, bs4.NavigableString) and not isinstance(
                    c, (bs4.Comment, bs4.CData, bs4.ProcessingInstruction, bs4.Declaration, bs4.Doctype)))
                if txt == '':
                    exp.add(i)
                elif txt == '\n':
                    unspec.add(i)
            if name(e) == 'input' and ph:
                t = typ(e)
                if t in ('', 'text', 'search', 'url', 'tel', 'email', 'password', 'number'):
                    if not attr(e, 'value'):
                        exp.add(i)
                elif t not in KNOWN_TYPES:
                    unspec.add(i)
        law(':placeholder-shown definition', R[':placeholder-shown'] - unspec == exp - unspec,
            {'extra': lab(R[':placeholder-shown'] - exp - unspec), 'missing': lab(exp - R[':placeholder-shown'] - unspec)}, bool(exp))
    # (c) select membership == per-element match, on a sample of pseudo-classes
    for sel in (':default', ':indeterminate', ':dir(rtl)', ':checked', ':disabled', ':in-range'):
        if R[sel] is None:
            continue
        for e in els:
            st, m = monitors.guarded_call(sv.match, sel, e)
            if st != 'ok':
                break
            stats['match_compared'] = stats.get('match_compared', 0) + 1
            if m != (id(e) in R[sel]):
                out.append({'law': 'select(%s) membership = match() per element' % sel,
                            'info': '%s<%s %r>: select says %r, match says %r' % (sel, e.name, dict(e.attrs), id(e) in R[sel], m)})
                break
    return out, hits


def run_unit(u):
    import soupsieve as sv
    rng = random.Random(u['seed'])
    res = {'evals': 0, 'sigs': [], 'viol': [], 'samples': [], 'counters': {}, 'notes': {}}
    cn = res['counters']
    sigs = set()
    open_keys = known.open_keys(ID)
    for _ in range(u['n']):
        tops, how, kind = build(rng)
        try:
            d = trees.materialise(tops, how)
        except Exception:  # noqa: BLE001
            cn['materialise_failed'] = cn.get('materialise_failed', 0) + 1
            continue
        stats = {}
        via = rng.choice(VIAS)
        viol, hits = check_doc(sv, d, kind, open_keys, stats, via)
        nt_laws = stats.pop('_nontrivial_laws', [])
        for k, v in stats.items():
            cn[k] = cn.get(k, 0) + v
        cn['documents'] = cn.get('documents', 0) + 1
        cn['kind:' + kind] = cn.get('kind:' + kind, 0) + 1
        res['evals'] += sum(v for k, v in stats.items() if k.startswith('law:'))
        shape = sig(trees.describe(d, 400))
        for k in nt_laws:
            sigs.add(sig(k, shape))
        for h in hits:
            cn['known:' + h['key']] = cn.get('known:' + h['key'], 0) + 1
            if len([v for v in res['viol'] if v.get('known_key') == h['key']]) < 2:
                res['viol'].append({'what': 'law "%s" fails on %s document: %r' % (h['law'], kind, h['info']), 'known_key': h['key'],
                                    'tree': [t.to_json() for t in tops], 'how': how, 'kind': kind, 'selector': h['law'], 'via': via,
                                    'markup': trees.describe(d, 1200), 'class': sig('known', h['key'])})
        for v in viol:
            cn['VIOL'] = cn.get('VIOL', 0) + 1
            if len([x for x in res['viol'] if 'known_key' not in x]) < 8:
                res['viol'].append({'what': 'law "%s" fails on %s document (selecting via %s): %r' % (v['law'], kind, via, v['info']),
                                    'tree': [t.to_json() for t in tops], 'via': via,
                                    'how': how, 'kind': kind, 'selector': v['law'], 'markup': trees.describe(d, 1200),
                                    'class': sig(v['law'], kind)})
        if not viol and len(res['samples']) < 1:
            res['samples'].append({'kind': kind, 'laws_checked': sorted(k[4:] for k in stats if k.startswith('law:'))[:6],
                                   'markup': trees.describe(d, 300)})
    res['sigs'] = list(sigs)
    return res


def classify(w):
    return w.get('known_key')


def replay(w):
    import soupsieve as sv
    tops = [trees.from_json(j) for j in w['tree']]
    d = trees.materialise(tops, w['how'])
    viol, hits = check_doc(sv, d, w['kind'], known.open_keys(ID), {}, w.get('via', 'module'))
    if w.get('known_key'):
        return dict(w, status_now='known finding still present') if any(h['key'] == w['known_key'] for h in hits) else None
    return dict(w, status_now=viol[0]) if viol else None


def inconclusive(cn, tier):
    out = []
    if cn.get('documents', 0) < (8000 if tier == 'quick' else 300000):
        out.append('too few documents: %d' % cn.get('documents', 0))
    for k in ('api', 'html.parser', 'lxml', 'html5lib', 'xhtml'):
        if cn.get('kind:' + k, 0) < 100:
            out.append('document kind %s: only %d' % (k, cn.get('kind:' + k, 0)))
    for v in set(VIAS):
        if cn.get('via:' + v, 0) < 300:
            out.append('route %s used only %d times' % (v, cn.get('via:' + v, 0)))
    if cn.get('match_compared', 0) < 10000:
        out.append('select-vs-match compared only %d times' % cn.get('match_compared', 0))
    if cn.get('raised', 0) > cn.get('documents', 0) // 20:
        out.append('too many selects raised (%d): C08 must be repaired first' % cn.get('raised', 0))
    return out
