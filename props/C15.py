"""C15 - compiled selectors are immutable values; the pattern cache is transparent.

Monitors: a structure walker over __slots__ of everything reachable from a compiled selector (assign / delete / add an
attribute must raise and leave the value unchanged; every part hashable); value laws (== exactly when compiled from
equal arguments, equal => equal hash, pickle/copy/deepcopy equal and selecting the same elements; the caller's dicts
are not aliased); an identity ledger as the API-level view of the cache in compile/purge histories (result equals a
fresh parse, at most 500 keys still answer with the identical old object, nothing old survives purge(),
compile(compiled) is the identity and rejects extra arguments), cross-checked with the passive cache_info() probe.
"""
import collections
import copy
import pickle
import random

from vlib import monitors, sels
from vlib.runner import sig

ID = 'C15'
LEVEL = 'exploration'
ANCHORS = ['Immutable.__init__', 'Immutable.__eq__', 'Immutable.__hash__', 'Immutable.__setattr__', 'ImmutableDict.__init__',
           'ImmutableDict.__hash__', '_pickle', '_cached_css_compile', '_purge_cache', '__init__.compile', '__init__.purge']
RULE = ('random selectors of the whole grammar compiled with random (namespaces, custom, flags); per compiled object: walk every '
        'node and try setattr/delattr/new attribute, hash every part, compare with objects compiled from equal and from '
        'one-argument-different arguments (map order, dict subclass, None vs {}, flags, custom), pickle/copy/deepcopy and '
        're-select, mutate the caller dicts afterwards; histories of 600-1500 compile/purge operations over up to 900 distinct '
        'keys with the identity ledger.  Non-trivial = an object with at least 3 nested nodes / a history with more than 500 '
        'distinct keys; distinct = distinct (pattern, argument kinds) / history seeds.')
ASSUMPTIONS = [
    'the cache bound is the documented 500 compiled patterns',
    'equality of compile arguments: same pattern string, same flags, mappings with equal items (None and {} are different arguments)',
    'mutating the dict *inside* a mapping wrapper (wrapper._d[k] = v) is outside the API and not attempted; rebinding or deleting the wrapper\'s attributes is',
]

NSS = [None, {}, {'a': 'urn:a'}, {'a': 'urn:a', 'b': 'urn:b'}, {'b': 'urn:b', 'a': 'urn:a'}, {'': 'urn:d'}, {'a': 'urn:b'}]
CUSTOMS = [None, {}, {':--x': 'p'}, {':--x': 'p', ':--y': ':--x > b'}, {':--y': ':--x > b', ':--x': 'p'}, {':--x': 'div'},
           {':--x': 'div', ':--y': ':--x > b'}, {':--x': 'span.k', ':--y': ':--x > b', ':--z': ':is(:--y, :--x)'},
           {':--x': 'p', ':--y': ':--x > b', ':--z': ':is(:--y, :--x)'}]


def _plan0(tier, seed):
    units = []
    for i in range(48 if tier == 'quick' else 480):
        units.append({'kind': 'values', 'seed': seed * 3571 + i, 'n': 220 if tier == 'quick' else 600})
    for i in range(4 if tier == 'quick' else 32):
        units.append({'kind': 'xproc', 'seed': seed * 3571 + 90000 + i, 'n': 40 if tier == 'quick' else 150})
    for i in range(16 if tier == 'quick' else 160):
        units.append({'kind': 'history', 'seed': seed * 3571 + 50000 + i, 'n': 8 if tier == 'quick' else 30})
    return units


def plan(tier, seed):
    """... plus the shared 'faultcompile' units: a compile with a custom-selector table is cut short (warning turned into an error,
    deep caller stack, asynchronous exception at a random line inside the library, DEBUG output stream that breaks, syntax error in
    a definition); the next ordinary compile with equal arguments must have the outcome of a fresh parse (vlib/faultcompile.py)."""
    units = _plan0(tier, seed)
    fthemes = ['generic', 'text', 'diag']
    units += [{'kind': 'faultcompile', 'theme': fthemes[i % len(fthemes)], 'seed': seed * 32749 + i, 'n': 150 if tier == 'quick' else 500}
              for i in range(12 if tier == 'quick' else 120)]
    return units


def gen_pattern(rng, cfg):
    from props import C05
    return sels.render(sels.gen_list(rng, rng.choice([0, 1, 2]), cfg))


def nodes_of(obj, ct, seen=None, depth=0):
    """Every Immutable / ImmutableDict reachable from obj through slots and tuples."""
    out = []
    seen = seen if seen is not None else set()
    if id(obj) in seen:
        return out
    seen.add(id(obj))
    if isinstance(obj, ct.Immutable):
        out.append(obj)
        for c in type(obj).__mro__:
            for s in getattr(c, '__slots__', ()):
                if s != '_hash' and hasattr(obj, s):
                    out += nodes_of(getattr(obj, s), ct, seen, depth + 1)
    elif isinstance(obj, ct.ImmutableDict):
        out.append(obj)
    elif isinstance(obj, (tuple, list)):
        for x in obj:
            out += nodes_of(x, ct, seen, depth + 1)
    return out


def check_frozen(node, ct):
    """Try to mutate one node; returns list of problems."""
    bad = []
    cls = type(node).__name__
    try:
        before = (repr(node), hash(node))
    except Exception as ex:  # noqa: BLE001 - an earlier successful mutation broke a shared node
        return ['%s is broken (repr/hash raises %r)' % (cls, ex)]
    names = []
    for c in type(node).__mro__:
        names += [s for s in getattr(c, '__slots__', ()) if s != '_hash']
    if isinstance(node, ct.ImmutableDict):
        for meth in ('__setitem__', '__delitem__', 'update', 'pop', 'clear', 'setdefault', 'popitem'):
            if hasattr(node, meth):
                bad.append('%s offers %s' % (cls, meth))
        try:
            node['zz'] = 1
            bad.append('%s accepted item assignment' % cls)
        except TypeError:
            pass
        for nm in ('_hash', '_d', 'brand_new_attribute'):
            saved = getattr(node, nm, None)
            try:
                setattr(node, nm, 12345)
                bad.append('%s.%s could be assigned' % (cls, nm))
                object.__setattr__(node, nm, saved) if nm != 'brand_new_attribute' else object.__delattr__(node, nm)
            except (AttributeError, TypeError):
                pass
            if nm != 'brand_new_attribute':
                try:
                    delattr(node, nm)
                    bad.append('%s.%s could be deleted' % (cls, nm))
                    object.__setattr__(node, nm, saved)
                except (AttributeError, TypeError):
                    pass
        return bad
    for nm in names[:3] + ['brand_new_attribute']:
        saved = getattr(node, nm, None)
        try:
            setattr(node, nm, 12345)
            bad.append('%s.%s could be assigned' % (cls, nm))
            object.__setattr__(node, nm, saved) if nm != 'brand_new_attribute' else object.__delattr__(node, nm)
        except (AttributeError, TypeError):
            pass
        if nm != 'brand_new_attribute':
            try:
                delattr(node, nm)
                bad.append('%s.%s could be deleted' % (cls, nm))
                object.__setattr__(node, nm, saved)      # harness repair so that the run can continue
            except (AttributeError, TypeError):
                pass
    if bad:
        return bad
    try:
        after = (repr(node), hash(node))
        if after != before:
            bad.append('%s changed after mutation attempts' % cls)
    except Exception as ex:  # noqa: BLE001
        bad.append('%s is broken after mutation attempts: %r' % (cls, ex))
    return bad


def same_args(a, b):
    return a[0] == b[0] and a[3] == b[3] and _meq(a[1], b[1]) and _meq(a[2], b[2])


def _meq(x, y):
    if x is None or y is None:
        return x is None and y is None
    return dict(x) == dict(y)


def variant_map(rng, m):
    if m is None:
        return None
    k = rng.randrange(5)
    items = list(m.items())
    rng.shuffle(items)
    if k == 4:
        class S(str):
            pass
        return {S(a): (S(b) if rng.random() < .5 else b) for a, b in items}
    if k == 0:
        return dict(items)
    if k == 1:
        return collections.OrderedDict(items)
    if k == 2:
        class D(dict):
            pass
        return D(items)
    return dict(reversed(items))


def run_unit(u):
    import warnings
    import bs4
    import soupsieve as sv
    from soupsieve import css_types as ct
    warnings.simplefilter('ignore')
    from props import C05
    rng = random.Random(u['seed'])
    res = {'evals': 0, 'sigs': [], 'viol': [], 'samples': [], 'counters': {}}
    cn = res['counters']
    sigs = set()
    cfg = sels.Cfg(extra=[(.4, lambda r, d: ('raw', r.choice([x for x in C05.RAW if '--al' not in x and 'svg|' not in x])))],
                   tag_prefixes=[None, None, 'a', 'b'], p_attr=.35)
    doc = bs4.BeautifulSoup(C05.HTML, 'html.parser')

    def bump(k, n=1):
        cn[k] = cn.get(k, 0) + n

    def viol(what, pattern, cls):
        bump('VIOL')
        if len(res['viol']) < 8:
            res['viol'].append({'what': what, 'selector': pattern, 'class': sig(cls)})

    def args(rng_):
        pat = gen_pattern(rng_, cfg)
        cu = rng_.choice(CUSTOMS)
        if cu and rng_.random() < .6:
            name = rng_.choice([k for k in cu])
            pat = pat + ((', ' + name) if rng_.random() < .5 else (' ' + name))
        return (pat, rng_.choice(NSS), cu, rng_.choice([0, 0, sv.DEBUG]))

    def comp(a):
        import contextlib
        import io
        with contextlib.redirect_stdout(io.StringIO()):
            return sv.compile(a[0], a[1], a[3], custom=a[2])

    if u['kind'] == 'xproc':
        # pickles written here are read by a fresh interpreter with another string-hash seed
        import os
        import subprocess
        import tempfile
        from vlib import env
        items = []
        for _ in range(u['n']):
            a = args(rng)
            st, c = monitors.guarded_call(comp, a)
            if st != 'ok':
                continue
            items.append(((a[0], None if a[1] is None else dict(a[1]), None if a[2] is None else dict(a[2]), a[3] & ~sv.DEBUG),
                          pickle.dumps(sv.compile(a[0], a[1], a[3] & ~sv.DEBUG, custom=a[2]), rng.choice([2, 4, pickle.HIGHEST_PROTOCOL]))))
        d = tempfile.mkdtemp(prefix='c15x.')
        try:
            pin, pout = os.path.join(d, 'in.pickle'), os.path.join(d, 'out.json')
            pickle.dump({'items': items, 'markup': C05.HTML}, open(pin, 'wb'))
            e = {k: v for k, v in os.environ.items() if k != 'PYTHONHASHSEED'}
            e['PYTHONHASHSEED'] = str(1 + u['seed'] % 1000)
            e['PYTHONPATH'] = env.REPO
            r = subprocess.run([env.PYTHON, '-B', os.path.join(env.VERIF, 'vlib', 'xproc_child.py'), pin, pout], capture_output=True, text=True,
                               timeout=600, env=e, cwd=d)
            import json as _json
            out = _json.load(open(pout)) if os.path.exists(pout) else None
        finally:
            for f in os.listdir(d):
                os.unlink(os.path.join(d, f))
            os.rmdir(d)
        if out is None:
            res['harness_error'] = 'cross-process child failed: %s' % r.stderr[-500:]
        else:
            res['evals'] += out['n']
            bump('cross_process_unpickled', out['n'])
            for b in out['bad']:
                viol('cross-process pickle: ' + b, 'xproc', 'xproc:' + b.split(': ', 1)[-1][:40])
        res['samples'].append({'cross_process_objects': len(items)})
        res['sigs'] = [sig('xproc', i[0]) for i in items]
        return res
    def transient(k):
        """A compile that fails for a reason outside the pattern (a warning turned into an error by the caller's filter, the
        interpreter's recursion limit hit because the *caller* is deep) must leave nothing behind: the same call made again
        under normal conditions succeeds and equals a fresh parse."""
        name = ':--t%d' % (k % 3)
        cu = {name: 'p:contains("x%d")' % k, ':--u': 'div %s, b' % name, ':--plain': 'i'}
        pat = rng.choice([':--u', name + ' > :--plain', ':is(:--u, :--plain)'])
        how_ = rng.choice(['warning', 'recursion'])
        failed = None
        if how_ == 'warning':
            with warnings.catch_warnings():
                warnings.simplefilter('error')
                try:
                    sv.compile(pat, custom=cu)
                except BaseException as ex:  # noqa: BLE001
                    failed = ex
        else:
            def deep(n):
                if n:
                    return deep(n - 1)
                return sv.compile(pat, custom=dict(cu))
            import sys
            try:
                deep(sys.getrecursionlimit() - len(__import__('inspect').stack()) - rng.choice([6, 12, 20, 30]))
            except RecursionError as ex:
                failed = ex
        bump('transient_failures' if failed is not None else 'transient_not_failed')
        if failed is None:
            return
        st1, c1 = monitors.guarded_call(sv.compile, pat, custom=dict(cu))
        if st1 != 'ok':
            viol('compile(%r, custom=%r) raises %r after the same call failed transiently (%s: %s)' % (pat, cu, c1, how_, type(failed).__name__),
                 pat, 'transient-' + how_)
            return
        sv.purge()
        st2, c2 = monitors.guarded_call(sv.compile, pat, custom=dict(cu))
        if st2 != 'ok' or not (c1 == c2 and hash(c1) == hash(c2)):
            viol('compile(%r, custom=%r) after a transient failure (%s) differs from a fresh parse' % (pat, cu, how_), pat, 'transient-diff-' + how_)

    COLLIDING = [{':--a': 'p', ':--\\61': 'div'}, {':--Item': 'p', ':--ITEM': 'div'}, {':--item': 'p', ':--ITEM': 'div', ':--z': 'b'},
                 {':--\\49tem': 'p', ':--i\\54 em': 'div'}, {':--ok': 'p', ':--\\6fk': 'p'}, {':--A': 'p', ':--b': ':--a, div'}]

    def ordering(k):
        """Equal maps in different insertion orders are equal arguments: the outcomes must be the same - the same exception
        type from both, or equal objects (names that are equal after unescaping and ASCII lower-casing collide in every order)."""
        m = COLLIDING[k % len(COLLIDING)]
        pat = rng.choice([':--a', ':--item', ':--ok, i', 'i', ':--b'])
        outs = []
        for items in (list(m.items()), list(reversed(list(m.items())))):
            sv.purge()
            st_, c_ = monitors.guarded_call(sv.compile, pat, custom=dict(items))
            outs.append((st_, type(c_).__name__ if st_ == 'raise' else c_))
        bump('map_orderings')
        (s1, o1), (s2, o2) = outs
        if s1 != s2 or (s1 == 'raise' and o1 != o2) or (s1 == 'ok' and not (o1 == o2 and hash(o1) == hash(o2))):
            viol('compile(%r, custom=%r) depends on the insertion order of the map: %s vs %s' % (
                pat, m, o1 if s1 == 'raise' else 'compiled', o2 if s2 == 'raise' else 'compiled' + ('' if s1 != 'ok' else ' (unequal)')), pat, 'map-order')

    if u['kind'] == 'values':
        for _k in range(u['n']):
            if _k % 10 == 0:
                sv.purge()
                transient(_k // 10)
            if _k % 10 == 5:
                ordering(_k // 10)
                sv.purge()
            a = args(rng)
            st, c = monitors.guarded_call(comp, a)
            if st != 'ok':
                bump('compile_failed')
                continue
            res['evals'] += 1
            bump('objects')
            nodes = nodes_of(c, ct)
            if len(nodes) >= 3:
                bump('nontrivial')
                sigs.add(sig(a[0], a[1] is None, a[2] is None, a[3]))
            # --- immutability and hashability of every part
            for nd in nodes:
                bump('nodes_walked')
                try:
                    hash(nd)
                except Exception as ex:  # noqa: BLE001
                    viol('unhashable part %s of compile(%r): %r' % (type(nd).__name__, a[0], ex), a[0], 'unhashable')
                    continue
                for b in check_frozen(nd, ct):
                    viol('%s (compile(%r, namespaces=%r, custom=%r))' % (b, a[0], a[1], a[2]), a[0], 'mutable:' + b.split(' ')[0])
            # after the attempts the cached object must still equal a fresh parse
            sv.purge()
            fresh = comp(a)
            if not (c == fresh and fresh == c and not (c != fresh) and hash(c) == hash(fresh)):
                viol('object compiled from %r no longer equals a fresh parse after mutation attempts / purge' % (a,), a[0], 'eq-fresh')
            # --- equal arguments in another spelling
            b = (a[0], variant_map(rng, a[1]), variant_map(rng, a[2]), a[3])
            cb = comp(b)
            if not (cb == c and hash(cb) == hash(c)):
                viol('compile with equal arguments in another dict order/type is unequal or hashes differently: %r vs %r' % (a, b), a[0], 'eq-equal-args')
            # --- equal arguments of another *type* (str subclass, bool / int subclass for the flags), compiled afresh
            class S(str):
                pass

            class I(int):
                pass
            b2 = (S(a[0]) if rng.random() < .7 else a[0], variant_map(rng, a[1]), variant_map(rng, a[2]),
                  rng.choice([bool(a[3]), I(a[3])]) if rng.random() < .7 else a[3])
            sv.purge()
            st_t, cb2 = monitors.guarded_call(comp, b2)
            bump('argument_type_variants')
            if st_t != 'ok':
                viol('compile with equal arguments of another type raised %r: %r' % (cb2, tuple(type(x).__name__ for x in b2)), a[0], 'eq-arg-type-raise')
            elif not (cb2 == c and c == cb2 and hash(cb2) == hash(c)):
                viol('compile with equal arguments of another type (%s) is %s to the original: %r' % (
                    ', '.join(type(x).__name__ for x in b2), 'unequal' if cb2 != c else 'equal but hashes differently', a), a[0],
                    'eq-arg-type:' + ('ne' if cb2 != c else 'hash'))
            # --- one argument different
            neighbours = []
            for i in range(1, 6):
                d = list(a)
                if i == 1:
                    d[1] = rng.choice([x for x in NSS if not _meq(x, a[1])])
                elif i == 2:
                    d[2] = rng.choice([x for x in CUSTOMS if not _meq(x, a[2])])
                elif i == 3:
                    d[3] = sv.DEBUG if not a[3] else 0
                elif i == 4:
                    # different flags whose Python hashes collide (hash(n) == n mod 2**61-1): equality must look at the values
                    d[3] = a[3] + 2 * (2 ** 61 - 1) * rng.choice([1, 2, 3])
                else:
                    d[3] = rng.choice([-1, -2])           # hash(-1) == hash(-2)
                    if rng.random() < .5:
                        a_alt = list(a)
                        a_alt[3] = -3 - d[3]              # the other one of the pair
                        st_p, cp_ = monitors.guarded_call(comp, tuple(a_alt))
                        st_q, cq_ = monitors.guarded_call(comp, tuple(d))
                        if st_p == 'ok' and st_q == 'ok':
                            bump('colliding_flag_pairs')
                            if cp_ == cq_ or not (cp_ != cq_):
                                viol('objects compiled with flags=-1 and flags=-2 (equal hashes) compare equal: %r' % (a[0],), a[0], 'eq-colliding-flags')
                        continue
                st2, cd = monitors.guarded_call(comp, tuple(d))
                if st2 != 'ok':
                    continue
                bump('neighbour_compiles')
                if cd == c or not (cd != c):
                    viol('objects compiled from different arguments compare equal: %r vs %r' % (a, tuple(d)), a[0], 'eq-different-args:%d' % i)
                # the cache must hand back what was asked for
                want_ns = None if d[1] is None else dict(d[1])
                got_ns = None if cd.namespaces is None else dict(cd.namespaces)
                want_cu = None if d[2] is None else dict(d[2])
                got_cu = None if cd.custom is None else dict(cd.custom)
                if cd.pattern != d[0] or cd.flags != d[3] or got_ns != want_ns or got_cu != want_cu:
                    viol('compile%r returned an object carrying other arguments: namespaces=%r custom=%r flags=%r' % (
                        tuple(d), cd.namespaces, cd.custom, cd.flags), a[0], 'wrong-args:%d' % i)
                neighbours.append((tuple(d), cd))
            # what was compiled without a purge in between must equal a fresh parse of the same arguments
            for dd, cd in neighbours:
                sv.purge()
                st3, fr = monitors.guarded_call(comp, dd)
                if st3 == 'ok':
                    bump('neighbour_fresh_compared')
                    if not (fr == cd and hash(fr) == hash(cd)):
                        viol('compile%r after compile%r (no purge in between) differs from a fresh parse of the same arguments' % (dd, a),
                             a[0], 'history-dependent-compile')
            # --- pickle / copy / deepcopy
            base_sel = [id(x) for x in c.select(doc)] if monitors.guarded_call(c.select, doc)[0] == 'ok' else None
            for name, f in (('pickle', lambda o: pickle.loads(pickle.dumps(o))), ('copy', copy.copy), ('deepcopy', copy.deepcopy),
                            ('pickle-proto2', lambda o: pickle.loads(pickle.dumps(o, 2)))):
                try:
                    o2 = f(c)
                except Exception as ex:  # noqa: BLE001
                    viol('%s of compile(%r) raised %r' % (name, a[0], ex), a[0], name + '-raise')
                    continue
                bump('copies')
                if not (o2 == c and hash(o2) == hash(c)):
                    viol('%s of compile%r is unequal or hashes differently' % (name, a), a[0], name + '-unequal')
                elif base_sel is not None and [id(x) for x in o2.select(doc)] != base_sel:
                    viol('%s of compile%r selects different elements' % (name, a), a[0], name + '-select')
            # --- the caller's dicts are not aliased
            ns_in = dict(a[1]) if a[1] is not None else None
            cu_in = dict(a[2]) if a[2] is not None else None
            if ns_in is not None or cu_in is not None:
                sv.purge()
                c2 = sv.compile(a[0], ns_in, 0, custom=cu_in)
                snap = pickle.loads(pickle.dumps(c2))
                h0 = hash(c2)
                if ns_in is not None:
                    ns_in['zz'] = 'urn:zz'
                    ns_in.pop('a', None)
                if cu_in is not None:
                    cu_in[':--zz'] = 'i'
                    cu_in.pop(':--x', None)
                bump('alias_checks')
                if not (c2 == snap and hash(c2) == h0 and
                        (c2.namespaces is None or 'zz' not in c2.namespaces) and (c2.custom is None or ':--zz' not in c2.custom)):
                    viol('mutating the dict passed to compile(%r) changed the compiled object (namespaces=%r custom=%r)' % (
                        a[0], c2.namespaces, c2.custom), a[0], 'alias')
            # --- pass-through of compiled objects
            if sv.compile(c) is not c:
                viol('compile(compiled) is not the identity', a[0], 'passthrough')
            own = []
            if c.namespaces is not None:
                own += [{'namespaces': c.namespaces}, {'namespaces': dict(c.namespaces)}]
            if c.custom is not None:
                own += [{'custom': c.custom}, {'custom': dict(c.custom)}]
            if c.flags:
                own += [{'flags': c.flags}]
            for kw in [{'namespaces': {}}, {'namespaces': {'a': 'b'}}, {'flags': sv.DEBUG}, {'custom': {}}, {'custom': {':--x': 'p'}}] + own:
                try:
                    sv.compile(c, **kw)
                    viol('compile(compiled, %r) did not reject the extra argument' % (kw,), a[0], 'passthrough-extra:' + repr(sorted(kw)) + repr(bool(list(kw.values())[0])))
                except ValueError:
                    pass
                except Exception as ex:  # noqa: BLE001
                    viol('compile(compiled, %r) raised %r instead of ValueError' % (kw, ex), a[0], 'passthrough-type')
            if len(res['samples']) < 2 and len(nodes) > 5:
                res['samples'].append({'pattern': a[0], 'namespaces': a[1], 'custom': a[2], 'flags': a[3], 'nodes_walked': len(nodes)})
    else:
        from soupsieve import css_parser as cp
        for _h in range(u['n']):
            sv.purge()
            nkeys = rng.choice([40, 520, 700, 900])
            keys = []
            for i in range(nkeys):
                keys.append(('p.k%d%s' % (i, rng.choice(['', ' > b', ':--x', ' :--y'])), rng.choice(NSS), None, 0))
                if keys[-1][0].endswith(':--x'):
                    keys[-1] = (keys[-1][0], keys[-1][1], rng.choice(CUSTOMS[2:]), 0)
                elif keys[-1][0].endswith(':--y'):
                    keys[-1] = (keys[-1][0], keys[-1][1], rng.choice([c for c in CUSTOMS if c and ':--y' in c]), 0)
            ledger = {}
            order = []
            nops = rng.randint(600, 1500)
            for op in range(nops):
                r = rng.random()
                if r < .004:
                    sv.purge()
                    old = dict(ledger)
                    ledger.clear()
                    order.clear()
                    bump('purges')
                    # nothing old may survive a purge
                    for ki in rng.sample(sorted(old), min(12, len(old))):
                        if comp(keys[ki]) is old[ki]:
                            viol('an object compiled before purge() is still served afterwards (%r)' % (keys[ki],), keys[ki][0], 'purge')
                    sv.purge()
                    continue
                ki = rng.randrange(nkeys) if rng.random() < .7 else min(nkeys - 1, op % nkeys)
                o = comp(keys[ki])
                res['evals'] += 1
                k = keys[ki]
                if o.pattern != k[0] or o.flags != k[3] or (None if o.namespaces is None else dict(o.namespaces)) != (None if k[1] is None else dict(k[1])) \
                        or (None if o.custom is None else dict(o.custom)) != (None if k[2] is None else dict(k[2])):
                    viol('compile%r returned an object carrying other arguments (%r, %r, %r)' % (k, o.pattern, o.namespaces, o.custom), k[0], 'history-wrong-args')
                ledger[ki] = o
                if ki in order:
                    order.remove(ki)
                order.append(ki)
            # every remembered object equals a fresh parse
            info = cp._cached_css_compile.cache_info() if hasattr(cp._cached_css_compile, 'cache_info') else None
            if info is not None and info.currsize > 500:
                bump('probe_cache_over_bound')
            # identity ledger: probe most-recent-first; at most 500 may still be the identical object
            same = 0
            for ki in reversed(order):
                if comp(keys[ki]) is ledger[ki]:
                    same += 1
            bump('histories')
            if len(order) > 500:
                bump('nontrivial')
                sigs.add(sig(u['seed'], _h, nkeys))
            if same > 500:
                viol('%d distinct keys still answer with the identical old object (bound is 500)%s' % (
                    same, '' if info is None else '; cache_info=%r' % (info,)), 'history', 'bound')
            sv.purge()
            for ki in rng.sample(sorted(ledger), min(60, len(ledger))):
                fresh = comp(keys[ki])
                bump('fresh_compared')
                if not (fresh == ledger[ki] and hash(fresh) == hash(ledger[ki])):
                    viol('object returned during the history for %r differs from a fresh parse' % (keys[ki],), keys[ki][0], 'history-fresh')
            res['samples'] = [{'history_ops': nops, 'distinct_keys': len(order), 'identical_after_history': same,
                               'cache_info': repr(info)}]
    res['sigs'] = list(sigs)
    return res


def replay(w):
    # value-law witnesses are cheap to regenerate: re-run a small 'values' unit and report anything of the same class
    r = run_unit({'kind': 'values', 'seed': 1, 'n': 40})
    r2 = run_unit({'kind': 'history', 'seed': 1, 'n': 2})
    v = [x for x in r['viol'] + r2['viol'] if x['class'] == w.get('class')] or (r['viol'] + r2['viol'])
    return dict(w, status_now=v[0]['what']) if v else None


def inconclusive(cn, tier):
    out = []
    if cn.get('objects', 0) < (2000 if tier == 'quick' else 60000):
        out.append('too few compiled objects examined: %d' % cn.get('objects', 0))
    if cn.get('nodes_walked', 0) < 10000 or cn.get('copies', 0) < 5000 or cn.get('alias_checks', 0) < 500:
        out.append('walker/copy/alias monitors under-exercised: %r' % {k: cn.get(k) for k in ('nodes_walked', 'copies', 'alias_checks')})
    if not cn.get('cross_process_unpickled'):
        out.append('cross-process pickle workload missing')
    if cn.get('histories', 0) < 50 or cn.get('nontrivial', 0) < 1000:
        out.append('too few histories beyond the cache bound')
    return out
