"""C05 - selector lists and logical pseudo-classes form a Boolean algebra.

Oracle: purely metamorphic (no reference): identity sets returned by the real select() for related selectors must
satisfy  S(A, B) = S(A) u S(B);  S(:is(A,B)) = S(:is(A)) u S(:is(B)) (= S(A, B) without a default namespace);
S(:not(A)) = U \\ S(:is(A));  S(:not(A,B)) = U \\ S(:is(A,B));  S(X:is(A)) = S(X) n S(:is(A));
:where = :matches = :is;  S(A) subset of S(A, B);  with U = what a bare `*` selects under the same map.
Because no reference is needed, A, B and X range over everything the parser accepts.
"""
import random

from vlib import cases, htmlgen, monitors, sels, trees
from vlib.runner import sig
from vlib.trees import E, T, NS_SVG, NS_XHTML, NS_XLINK, NS_MATHML

ID = 'C05'
LEVEL = 'exploration'
ANCHORS = ['CSSMatch.match_selectors', 'CSSMatch.match_subselectors', 'CSSParser.parse_pseudo_open',
           'CSSParser.parse_combinator', 'CSSMatch.match_dir', 'CSSMatch.match_defined']
RULE = ('random triples (A, B, X) of complex/compound selectors from the whole supported grammar (every simple, '
        'no-match and functional pseudo-class, :dir, :defined, :lang, An+B of S, :has, text pseudo-classes, namespace '
        'prefixes, custom aliases) x documents of every kind (fixed feature documents and generated form documents '
        'under html.parser/lxml/html5lib, XHTML, plain XML with several namespaces, html5lib with SVG/MathML, '
        'html.parser with iframes) x namespace maps {None, prefixes, prefixes + default}.  9 laws per triple.  '
        'Non-trivial = the union S(A) u S(B) is neither empty nor U; distinct = distinct (shape A, shape B, document kind, map kind).')
ASSUMPTIONS = ['U is taken from select("*") under the same namespace map (cross-checked against the element count when '
               'no default namespace is declared)',
               'laws are compared on whole-document select() results (node identity)']

RAW = [':any-link', ':empty', ':first-child', ':first-of-type', ':in-range', ':out-of-range', ':last-child', ':last-of-type',
       ':link', ':only-child', ':only-of-type', ':root', ':checked', ':default', ':disabled', ':enabled', ':indeterminate',
       ':optional', ':placeholder-shown', ':read-only', ':read-write', ':required', ':scope', ':defined', ':hover', ':focus',
       ':target', ':active', ':visited', ':focus-within', ':dir(ltr)', ':dir(rtl)', ':lang(en)', ':lang("*-US")', ':lang("")',
       ':nth-child(2n+1)', ':nth-child(2 of p, .x)', ':nth-last-of-type(-n+2)', ':nth-of-type(odd)', ':-soup-contains(t)',
       ':-soup-contains-own("a", z)', ':host', ':current(p)', ':host-context(p)', ':--al', '&', '[svg|href]', '[*|href]',
       '[type=radio]', '[dir]', ':paused', ':local-link']
TAGS = ['svg|*', 'svg|a', '*|p', '|p', 'svg|circle', '*|*', 'html|p', 'x|item', 'input', 'p', 'a', 'form', 'span', 'item']

HTML = ('<html><head><meta http-equiv="content-language" content="en"></head><body><form><input type=radio name=r>'
        '<input type=submit><input type=number min=1 max=3 value=5 required><textarea placeholder=x></textarea>'
        '<fieldset disabled><input id=x></fieldset></form><p class="x" lang="en-US" dir=rtl>t<span id=i1>a</span></p>'
        '<p id=y>z</p><a href=u class=k>l</a><svg xmlns="http://www.w3.org/2000/svg" '
        'xmlns:xlink="http://www.w3.org/1999/xlink"><a xlink:href="q"><circle/></a></svg><div><iframe><html><body>'
        '<p class=x>t</p><span dir=ltr>a</span></body></html></iframe><b>b</b></div><custom-el>z</custom-el></body></html>')
XML = ('<root xmlns:svg="http://www.w3.org/2000/svg" xmlns:xlink="http://www.w3.org/1999/xlink" xmlns:x="urn:x">'
       '<p class="x" xml:lang="en-US">t<span id="i1">a</span></p><p id="y">z</p><a href="u" class="k">l</a><svg:svg>'
       '<svg:a xlink:href="q"><svg:circle/></svg:a></svg:svg><div><b>b</b></div><x:item class="x" checked="">t</x:item>'
       '<x:item/><item class="x"/><input type="radio" checked=""/><custom-el/></root>')
XHTML = ('<html xmlns="http://www.w3.org/1999/xhtml" xmlns:xlink="http://www.w3.org/1999/xlink"><head/><body><form>'
         '<input type="radio" name="r"/><input type="submit"/></form><p class="x" lang="en-US" dir="rtl">t'
         '<span id="i1">a</span></p><p id="y">z</p><a href="u" class="k">l</a><svg xmlns="http://www.w3.org/2000/svg">'
         '<a xlink:href="q"><circle/></a></svg><div><b>b</b></div><f:e xmlns:f="urn:x" class="x">t</f:e></body></html>')
NSMAPS = [None, {'svg': NS_SVG, 'html': NS_XHTML, 'x': 'urn:x'}, {'svg': NS_SVG, 'html': NS_XHTML, 'x': 'urn:x', '': NS_XHTML},
          {'svg': NS_SVG, 'x': 'urn:x', '': 'urn:x'}, {'svg': 'urn:x', 'x': NS_SVG, 'html': NS_XHTML}]
CUSTOM = {':--al': 'a, :is(p, span):not(.x)', ':--cls': '.x, [id], p', ':--two': '[class] > *, :--cls'}
ALIASES = {':--cls': ':is(.x, [id], p)', ':--two': ':is([class] > *, :is(.x, [id], p))', ':--al': ':is(a, :is(p, span):not(.x))'}


# fixed alternatives over stateful pseudo-classes whose evaluation memoises per-document facts: inside one list they are
# evaluated by one matcher, alone by separate ones
STATE_PAIRS = [('input[name="r"]:indeterminate', 'input[name="R"]:indeterminate'), ('input[name="q"]:indeterminate', 'input:indeterminate'),
               (':default', ':checked'), ('form :default', 'button:default'), (':lang(en)', ':lang(de)'), (':lang("")', ':lang("*")'),
               (':dir(rtl)', ':dir(ltr)'), (':in-range', ':out-of-range'), (':disabled', ':enabled'), (':read-write', ':placeholder-shown')]


# user-written lists that are equal *by value* to lists inside the library's own definitions of the HTML-only pseudo-classes,
# next to the pseudo-class itself (anything shared between the two evaluations must not leak from one into the other)
SHADOW = [(':is(a, area) > *', ':link > *'), (':link > *', ':is(a, area) > *'), (':is(a, area)', ':any-link'),
          ('*|*:is(a, area) > *|*', ':any-link > *|*'), (':is(input, textarea, select)', ':required'),
          (':is(input, textarea, select) ~ *', ':optional ~ *'), (':is(button, input)', ':default'), (':not([required])', ':optional'),
          (':is(input[type=checkbox], input[type=radio])', ':checked'), (':not([readonly], :disabled)', ':read-write'),
          (':not(:disabled) > *', ':enabled > *'), (':not(:read-write)', ':read-only'), (':is(:not([name]), [name=""])', ':indeterminate'),
          (':not(legend:nth-of-type(1)) input', ':disabled'), (':is(:not([value]), [value=""])', ':placeholder-shown'),
          ('*|*:is(a, area)[href] *|*', '*|*:link *|*'), ('*|a:is(a, area) > *|*', '*|a:any-link > *|*')]


def plan(tier, seed):
    n = 96 if tier == 'quick' else 1600
    per = 110 if tier == 'quick' else 300
    return [{'seed': seed * 31337 + i, 'n': per} for i in range(n)]


def _cfg():
    def raw(rng, depth):
        return ('raw', rng.choice(RAW))
    return sels.Cfg(extra=[(.5, raw)], p_id=.1, p_class=.25, p_attr=.2, p_struct=.1, p_more=.3,
                    names=['p', 'a', 'span', 'div', 'input', 'form', 'item', 'b', 'circle', 'svg'])


def render_compound(rng, c):
    """sels.render_compound + optionally a raw namespaced type selector in front (only when there is no tag)."""
    s = sels.render_compound(c)
    if c.get('tag') is None and rng.random() < .25:
        s = rng.choice(TAGS) + ('' if s == '*' else s)
    return s


def render_complex(rng, cx):
    out = []
    for part in cx:
        if isinstance(part, dict):
            out.append(render_compound(rng, part))
        else:
            out.append(' ' if part == ' ' else ' %s ' % part)
    return ''.join(out)


def fixed_docs():
    from bs4 import BeautifulSoup as BS
    return [('html.parser+iframe', BS(HTML, 'html.parser')), ('lxml', BS(HTML, 'lxml')), ('html5lib+svg', BS(HTML, 'html5lib')),
            ('xml', BS(XML, 'xml')), ('xhtml', BS(XHTML, 'xml'))]


def gen_docs(rng):
    out = []
    tops = htmlgen.gen_form_doc(rng, max_nodes=20)
    how = rng.choice(['html.parser', 'lxml', 'html5lib', 'api'])
    out.append(('gen-' + how, trees.materialise(tops, how)))
    root, _ = trees.gen_tree(rng, max_nodes=14, names=['p', 'a', 'item', 'span', 'input'])

    def ns(e):
        r = rng.random()
        if r < .3:
            e.prefix, e.ns = 'x', 'urn:x'
        elif r < .45:
            e.prefix, e.ns = 'svg', NS_SVG
        if rng.random() < .2:
            e.attrs['checked'] = ''
        if rng.random() < .2:
            e.attrs['dir'] = rng.choice(['ltr', 'rtl'])
        for k in e.kids:
            if isinstance(k, E):
                ns(k)
    ns(root)
    root.nsdecl = {'x': 'urn:x', 'svg': NS_SVG}
    out.append(('gen-xml', trees.materialise([root], rng.choice(['xml', 'api-xml']))))
    return out


def sel_set(sv, sel, doc, ns):
    c = sv.compile(sel, ns, custom=CUSTOM)
    return frozenset(id(x) for x in c.select(doc))


def laws(sv, A, B, X, doc, ns, match_doc=None):
    """Returns (dict law -> bool, info) or raises."""
    S = lambda s: sel_set(sv, s, doc, ns)  # noqa: E731
    U = S('*')
    sa, sb, sab = S(A), S(B), S('%s, %s' % (A, B))
    isa, isb, isab = S(':is(%s)' % A), S(':is(%s)' % B), S(':is(%s, %s)' % (A, B))
    nota, notab = S(':not(%s)' % A), S(':not(%s, %s)' % (A, B))
    x, xisa = S(X), S('%s:is(%s)' % (X, A))
    if ns is not None and '' in ns:
        # a top-level ':is(A)' carries an implied universal selector that is subject to the default namespace; the
        # intersection law is about ':is(A)' as a predicate, so neutralise the default namespace with '*|*'
        isa_pred = S('*|*:is(%s)' % A)
    else:
        isa_pred = isa
    wh, mt = S(':where(%s)' % A), S(':matches(%s)' % A)
    out = {'union': sab == sa | sb, 'is-union': isab == isa | isb, 'not': nota == U - isa, 'not-list': notab == U - isab,
           'intersection': xisa == x & isa_pred, 'where=is': wh == isa, 'matches=is': mt == isa, 'monotone': sa <= sab and sb <= sab}
    # a comment (after a blank) before the comma is insignificant
    def S2(s, want):
        try:
            return S(s) == want
        except monitors.BudgetExceeded:
            raise
        except Exception:  # noqa: BLE001 - the canonical spelling compiled, so a rejected respelling is not the union either
            return False
    out['comment-before-comma'] = S2('%s /* en */, %s' % (A, B), sab) and S2(':is(%s /* x */ , %s)' % (A, B), isab) and \
        S2(':not(%s /**/\n, %s)' % (A, B), notab)
    # forgiving lists: an empty or dangling alternative of :is()/:where() contributes nothing (when it is accepted at all)
    for junk in ('', 'div >', 'p +', ' '):
        try:
            sj = S(':is(%s, %s)' % (junk, A))
            sw = S(':where(%s , %s)' % (junk, A))
        except Exception:  # noqa: BLE001
            continue
        out['forgiving-list'] = out.get('forgiving-list', True) and sj == isa and sw == isa
    # a custom alias selects what its definition selects, under every outer compound
    for al, defn in ALIASES.items():
        for outer in ('*|*', ''):
            out['alias=definition'] = out.get('alias=definition', True) and S2(outer + al, S(outer + defn)) and \
                S2(outer + ':not(%s)' % al, S(outer + ':not(%s)' % defn))
    if match_doc is not None:
        import bs4
        sel = '%s, %s' % (A, B)
        if ':scope' not in sel and '&' not in sel:
            c = sv.compile(sel, ns, custom=CUSTOM)
            per = frozenset(id(e) for e in match_doc.descendants if isinstance(e, bs4.Tag) and c.match(e))
            out['select == per-element match'] = per == sab
    if ns is None or '' not in ns:
        out['is=list'] = isab == sab
    else:
        # the same laws with the default namespace neutralised on the outer compound (the lists themselves are then
        # the only place where a namespace restriction could come from)
        Ux = S('*|*')
        xa, xb, xab = S('*|*:is(%s)' % A), S('*|*:is(%s)' % B), S('*|*:is(%s, %s)' % (A, B))
        out['is-union(*|*)'] = xab == xa | xb and S('*|*:is(%s, %s)' % (B, A)) == xab
        out['not(*|*)'] = S('*|*:not(%s)' % A) == Ux - xa
        out['not-list(*|*)'] = S('*|*:not(%s, %s)' % (A, B)) == Ux - xab
        out['where(*|*)'] = S('*|*:where(%s, %s)' % (A, B)) == xab
    return out, {'U': len(U), 'A': len(sa), 'B': len(sb), 'AB': len(sab)}


def run_unit(u):
    import bs4
    import soupsieve as sv
    rng = random.Random(u['seed'])
    res = {'evals': 0, 'sigs': [], 'viol': [], 'samples': [], 'counters': {}}
    cn = res['counters']
    sigs = set()
    cfg = _cfg()
    fixed = fixed_docs()
    for i in range(u['n']):
        A_ast, B_ast = sels.gen_complex(rng, 1, cfg), sels.gen_complex(rng, 1, cfg)
        X_ast = sels.gen_compound(rng, 0, cfg)
        A, B, X = render_complex(rng, A_ast), render_complex(rng, B_ast), render_compound(rng, X_ast)
        if i % 6 == 5:
            A, B = rng.choice(SHADOW)
            X = rng.choice(['*|*', 'input', 'a', '*|a'])
            cn['shadow_pairs'] = cn.get('shadow_pairs', 0) + 1
        docs = fixed if i % 3 else fixed + gen_docs(rng)
        for name, d in docs:
            if name.startswith('gen'):
                a0, b0 = rng.choice(STATE_PAIRS)
                try:
                    with monitors.cpu_budget(30):
                        out0, info0 = laws(sv, a0, b0, 'input', d, None, d)
                except Exception:  # noqa: BLE001
                    out0 = {}
                res['evals'] += len(out0)
                cn['state_pair_triples'] = cn.get('state_pair_triples', 0) + 1
                for law, ok in out0.items():
                    if not ok:
                        cn['VIOL'] = cn.get('VIOL', 0) + 1
                        if len(res['viol']) < 8:
                            res['viol'].append({'what': 'law %s fails for A=%r B=%r on %s document (sizes %r)' % (law, a0, b0, name, info0), 'law': law,
                                                'A': a0, 'B': b0, 'X': 'input', 'doc': name, 'nsmap': None, 'markup': trees.describe(d, 3000),
                                                'selector': a0 + ' | ' + b0, 'xml': bool(getattr(d, 'is_xml', False)), 'class': sig(law, 'state', a0)})
            ns = rng.choice(NSMAPS)
            nsk = 'none' if ns is None else ('default' if '' in ns else 'prefixes')
            try:
                with monitors.cpu_budget(30):
                    out, info = laws(sv, A, B, X, d, ns, d if name.startswith('gen') or i % 7 == 0 else None)
            except monitors.BudgetExceeded:
                cn['budget'] = cn.get('budget', 0) + 1
                continue
            except Exception as ex:  # noqa: BLE001 - exceptions belong to C06/C08; counted, not judged here
                cn['raised:' + type(ex).__name__] = cn.get('raised:' + type(ex).__name__, 0) + 1
                continue
            res['evals'] += len(out)
            cn['triples'] = cn.get('triples', 0) + 1
            cn['doc:' + name.split('-')[0]] = cn.get('doc:' + name.split('-')[0], 0) + 1
            cn['map:' + nsk] = cn.get('map:' + nsk, 0) + 1
            if 0 < info['AB'] < info['U']:
                cn['nontrivial'] = cn.get('nontrivial', 0) + 1
                sigs.add(sig(sels.shape([A_ast]), sels.shape([B_ast]), name, nsk))
                if len(res['samples']) < 2:
                    res['samples'].append({'A': A, 'B': B, 'X': X, 'doc': name, 'namespaces': ns, 'sizes': info})
            for law, ok in out.items():
                if not ok:
                    cn['VIOL'] = cn.get('VIOL', 0) + 1
                    if len(res['viol']) < 8:
                        res['viol'].append({'what': 'law %s fails for A=%r B=%r X=%r on %s document, namespaces=%r (sizes %r)' % (
                            law, A, B, X, name, ns, info), 'law': law, 'A': A, 'B': B, 'X': X, 'doc': name, 'nsmap': ns,
                            'markup': trees.describe(d, 3000) if name.startswith('gen') else None, 'selector': A + ' | ' + B,
                            'xml': bool(getattr(d, 'is_xml', False)), 'class': sig(law, name.split('-')[0], nsk)})
    res['sigs'] = list(sigs)
    return res


def replay(w):
    import soupsieve as sv
    from bs4 import BeautifulSoup as BS
    if w.get('markup'):
        how = 'xml' if w.get('xml') else (w['doc'].split('-', 1)[1] if '-' in w['doc'] else 'html.parser')
        d = BS(w['markup'], 'html.parser' if how == 'api' else ('xml' if how in ('xml', 'api-xml') else how))
    else:
        d = dict(fixed_docs())[w['doc']]
    try:
        out, info = laws(sv, w['A'], w['B'], w['X'], d, w.get('nsmap'))
    except Exception as ex:  # noqa: BLE001
        return dict(w, status_now='raises %r' % ex)
    if w['law'] in out and not out[w['law']]:
        return dict(w, status_now='law still fails', sizes=info)
    bad = [k for k, v in out.items() if not v]
    return dict(w, status_now='other laws fail: %s' % bad) if bad else None


def inconclusive(cn, tier):
    out = []
    if cn.get('nontrivial', 0) < (3000 if tier == 'quick' else 100000):
        out.append('too few non-trivial law instances: %d' % cn.get('nontrivial', 0))
    for k in ('doc:html.parser+iframe', 'doc:xml', 'doc:xhtml', 'doc:html5lib+svg', 'doc:gen', 'map:default', 'map:prefixes'):
        if not cn.get(k):
            out.append('%s never exercised' % k)
    return out
