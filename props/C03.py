"""C03 - all query entry points are views of one match relation.

Monitor: API-boundary recorder (call event before, return/raise event after, one monotonic counter) around the
seven module functions and the six compiled-object methods; the oracle is an offline checker over that event log:
each return is compared with what the reference relation R(scope, element) (vlib/refsel.py, evaluated on a
snapshot of the same tree) prescribes for that entry point, and entry points are compared with each other
(module function == compile(...) + method, iselect == select, select_one == first, limit == prefix).
"""
import contextlib
import io
import random
import sys

from vlib import cases, monitors, refsel, sels, trees
from vlib.runner import sig
from vlib.trees import E, T

ID = 'C03'
LEVEL = 'exploration'
ANCHORS = ['CSSMatch.select', 'CSSMatch.closest', 'CSSMatch.filter', 'CSSMatch.match', 'CSSMatch.match_scope',
           'SoupSieve.filter', 'SoupSieve.select_one', 'SoupSieve.iselect', '__init__.select', '__init__.closest',
           '__init__.filter', '__init__.match', '__init__.select_one', '__init__.iselect']
RULE = ('random (tree, selector) pairs (C01 grammar + :scope/& + namespace prefixes and custom aliases that the '
        'selector really uses); per pair the document and 3 elements as call target; per target every entry point: '
        'compiled select/iselect/select_one/filter/closest/match, limits {-2,-1,0,1,2,3,10^6}, filter(iterable) over '
        'Tags of two documents + strings + comments, and the six module-level functions with positional and keyword '
        'namespaces/flags/custom (flags=DEBUG with stdout captured after purge()).  Non-trivial = the reference list '
        'is neither empty nor everything; distinct = distinct (selector shape, tree shape, target kind).')
ASSUMPTIONS = [
    'vlib/refsel.py defines the match relation R(scope, element); where it says unspecified only entry-point '
    'agreement is checked',
    'namespace prefixes are used only on namespace-aware documents (lxml-xml, API-built XML, html5lib)',
    'DEBUG output on stdout ("## PARSING") is the observable effect of flags being forwarded',
]

NS1 = 'urn:verif:one'
NS2 = 'urn:verif:two'
LIMITS = [-2, -1, 0, 1, 2, 3, 10 ** 6]
CUSTOM_TEXT = {':--al': 'a, .x', ':--Nest': ':--al > b, p:--al'}
CUSTOM_AST = {
    '--al': [[{'tag': (None, 'a')}], [{'classes': ['x']}]],
    '--nest': [[{'pseudos': [('custom', '--al')]}, '>', {'tag': (None, 'b')}],
               [{'tag': (None, 'p'), 'pseudos': [('custom', '--al')]}]],
}


def nsify(rng, root):
    """Assign namespaces/prefixes to a recipe (for XML materialisers); declarations go on the root."""
    def rec(e):
        r = rng.random()
        if r < .3:
            e.prefix, e.ns = 'p1', NS1
        elif r < .45:
            e.prefix, e.ns = 'p2', NS2
        for k in e.kids:
            if isinstance(k, E):
                rec(k)
    rec(root)
    root.nsdecl = {'p1': NS1, 'p2': NS2}
    return root


def _plan0(tier, seed):
    n = 128 if tier == 'quick' else 1600
    per = 100 if tier == 'quick' else 250
    return [{'seed': seed * 99991 + i, 'n': per} for i in range(n)]


def plan(tier, seed):
    """... plus the shared 'lazy' units: iselect consumed step by step while the caller edits, between two items, exactly what
    this property's pseudo-classes depend on (vlib/lazy.py; the rest of the iteration must be what the selector designates on
    the tree as it is now)."""
    units = _plan0(tier, seed)
    themes = ['generic', 'nth', 'lang', 'text', 'state', 'range']
    k = 24 if tier == 'quick' else 240
    units += [{'kind': 'lazy', 'theme': themes[i % len(themes)], 'seed': seed * 65521 + i, 'n': 60 if tier == 'quick' else 200} for i in range(k)]
    return units


class Recorder:
    """API-boundary event log."""

    def __init__(self):
        self.log = []
        self.n = 0

    def call(self, name, fn, *a, **kw):
        self.n += 1
        ev = {'i': self.n, 'op': name}
        buf = io.StringIO()
        try:
            with contextlib.redirect_stdout(buf), monitors.cpu_budget(20):
                r = fn(*a, **kw)
                if name.endswith('iselect'):
                    r = list(r)
            ev['ret'] = r
        except monitors.BudgetExceeded:
            ev['budget'] = True
        except Exception as ex:  # noqa: BLE001
            ev['exc'] = ex
        ev['stdout'] = buf.getvalue()
        self.log.append(ev)
        return ev


def ids(x):
    return [id(o) for o in x]


def run_unit(u):
    import bs4
    import soupsieve as sv
    rng = random.Random(u['seed'])
    res = {'evals': 0, 'sigs': [], 'viol': [], 'samples': [], 'counters': {}}
    cn = res['counters']
    sigs = set()

    def bump(k, n=1):
        cn[k] = cn.get(k, 0) + n

    pcs = ['checked', 'disabled', 'link', 'default', 'required', 'enabled', 'read-write', 'indeterminate', 'lang(fr)', 'lang(fr)', 'dir(ltr)']

    def pc(r, d):
        return ('pc', r.choice(pcs))

    def pc_ext(ref, e, p):
        # HTML-only state pseudo-classes: nothing in a document that is XML but not XHTML; otherwise not modelled here
        return False if not ref.is_html else None
    ext = {'pc': pc_ext}
    cfg_plain = sels.Cfg(p_id=.08, p_class=.2, p_attr=.2, p_struct=.2, p_more=.3, extra=[(.12, lambda r, d: ('scope',)), (.06, lambda r, d: ('amp',)), (.1, pc)])
    cfg_ns = sels.Cfg(tag_prefixes=[None, None, 'p1', 'p2', '*', ''], p_tag=.6, p_id=.08, p_class=.2, p_attr=.2, p_struct=.2, p_more=.3,
                      extra=[(.12, lambda r, d: ('scope',)), (.06, lambda r, d: ('amp',)),
                             (.15, lambda r, d: ('custom', r.choice(['--al', '--nest']))), (.2, pc)])
    cfg_custom = sels.Cfg(p_id=.08, p_class=.2, p_attr=.2, p_struct=.2, p_more=.3, extra=[(.12, lambda r, d: ('scope',)), (.3, lambda r, d: ('custom', r.choice(['--al', '--nest'])))])

    def violation(what, case, ast, text, **kw):
        bump('VIOL')
        if len(res['viol']) < 8:
            res['viol'].append(case.witness(ast, text, what, **kw))

    for _ in range(u['n']):
        pragma = False
        how = rng.choice(['api', 'html.parser', 'lxml', 'html5lib', 'xml', 'api-xml', 'xml', 'api-xml'])
        framed = how in ('api', 'html.parser') and rng.random() < .5
        root, ws = trees.gen_tree(rng, max_nodes=rng.choice([5, 12, 25]), names=trees.NAMES + (['iframe', 'iframe'] if framed else []), p_dup=.5)
        xmlish = how in ('xml', 'api-xml')
        if xmlish:
            nsify(rng, root)
            tops = [root]
            nsmap = rng.choice([None, {}, {'p1': NS1, 'p2': NS2}, {'p1': NS2, 'p2': NS1}, {'p1': NS1},
                                {'p1': NS1, '': NS2}, {'': NS1, 'p2': NS2}])
            cfg = cfg_ns
            use_custom = True
        else:
            tops, _m = trees.wrap(rng, root)
            for t_ in tops:
                # a language pragma in the outer document (what an embedded document inherits from it is for the entry points to agree on)
                if isinstance(t_, E) and t_.name == 'html' and t_.kids and isinstance(t_.kids[0], E) and t_.kids[0].name == 'head' and rng.random() < .5:
                    t_.kids[0].kids.append(E('meta', {'http-equiv': 'content-language', 'content': 'fr'}))
                    bump('documents_with_pragma')
                    pragma = True
            nsmap = rng.choice([None, None, {}])
            use_custom = rng.random() < .5
            cfg = cfg_custom if use_custom else cfg_plain
        custom = dict(CUSTOM_TEXT) if use_custom else None
        custom_ast = CUSTOM_AST if use_custom else {}
        if rng.random() < .15:
            # an element made by the other kind of builder moved into this tree: the document decides the rules, not the element
            import copy as _copy
            how += '+graft'
            cfg = _copy.copy(cfg)
            cfg.names = list(cfg.names) + ['item', 'Item', 'ITEM', 'sub', 'DIV', 'div', 'input', 'P']
            bump('grafted_trees')
        case0 = cases.Case(tops, how, ['doc'], nsmap=nsmap)
        if rng.random() < .2:
            # a detached subtree: its root element has no parent at all (closest/select/filter/match on a parentless root)
            case0 = cases.Case(tops, how, ['detached', rng.randrange(1000)], nsmap=nsmap)
        soup = case0.top_obj
        all_els = [e for e in soup.descendants if isinstance(e, bs4.Tag)]
        other = trees.build_api([E('div', {'class': ['x']}, [E('a', {'id': 'x'}), T('text', 'q'), E('b')])])
        for _s in range(2):
            ast = sels.gen_list(rng, rng.choice([1, 2, 2]), cfg)
            if pragma and rng.random() < .6:
                last_ = [c for c in ast[-1] if isinstance(c, dict)][-1]
                last_['pseudos'] = [p for p in last_['pseudos'] if p[0] not in ('scope', 'amp')] + [('pc', 'lang(fr)')]
                if rng.random() < .5:
                    last_['tag'], last_['ids'], last_['classes'], last_['attrs'] = None, [], [], []
            if framed and rng.random() < .35:
                # one alternative that makes the matcher evaluate an HTML-only pseudo-class on many elements, next to alternatives whose
                # combinators have to cross an iframe boundary (whatever the first one sets up must be undone before the others run)
                ast = sels.gen_list(rng, 2, cfg)
                first_ = [c for c in ast[0] if isinstance(c, dict)][-1]
                first_['tag'], first_['ids'], first_['classes'], first_['attrs'] = None, [], [], []
                first_['pseudos'] = [('pc', rng.choice(pcs[:8]))]
                # ... and the second alternative names an element inside an iframe through an ancestor outside of it
                pairs_ = []

                def walk_(e_, chain_):
                    for k_ in e_.kids:
                        if isinstance(k_, E):
                            if 'iframe' in chain_:
                                i_ = chain_.index('iframe')
                                for anc_ in chain_[:i_ + 1]:
                                    pairs_.append((anc_, k_.name))
                            walk_(k_, chain_ + [k_.name])
                walk_(root, [root.name])
                if pairs_:
                    anc_, inner_ = rng.choice(pairs_)
                    mk_ = lambda n_: {'tag': (None, n_), 'ids': [], 'classes': [], 'attrs': [], 'pseudos': []}  # noqa: E731
                    alt_ = [mk_(anc_), rng.choice([' ', ' ', '>']), mk_(inner_)] if rng.random() < .8 else [mk_(anc_), ' ', mk_('iframe'), ' ', mk_(inner_)]
                    ast = [ast[0], alt_]
                bump('html_only_next_to_combinators_in_framed_trees')
            if rng.random() < .1:
                # :scope inside a compound that other elements (twins of the call target included) are tested against
                cx_ = rng.choice(ast)
                comps_ = [c for c in cx_ if isinstance(c, dict)]
                c_ = rng.choice(comps_)
                if not any(p[0] in ('scope', 'amp') for p in c_['pseudos']):
                    c_['pseudos'] = c_['pseudos'] + [('scope',)]
                    bump('scope_added')
            if rng.random() < .08:
                # the scope marker written *before* another flag-like pseudo-class of the same compound (and after one)
                cx = rng.choice(ast)
                comp0 = rng.choice([c for c in cx if isinstance(c, dict)])
                mark = rng.choice([('scope',), ('amp',)])
                other_ = rng.choice([('root',), ('empty',), ('root',)])
                comp0['pseudos'] = ([mark, other_] if rng.random() < .7 else [other_, mark]) + [p for p in comp0['pseudos'] if p[0] not in ('scope', 'amp')]
                bump('scope_then_flag_compounds')
            text = sels.render(ast)
            if isinstance(nsmap, dict) and nsmap and ':--' not in text and rng.random() < .5:
                # the module-level functions, the compiled object and Beautiful Soup's wrapper given ONE dict that the caller edits in
                # place between consecutive calls (nothing else compiled in between) - vlib/inplace.py
                from vlib import inplace
                keep_ = (case0.nsmap, case0.ext)
                case0.ext = ext
                r_ = inplace.sequence(sv, rng, case0, ast, text, nsmap, [NS1, NS2, 'urn:verif:three'])
                case0.nsmap, case0.ext = keep_
                bump('inplace_sequences')
                bump('inplace_compared', r_.get('n', 0))
                if not r_.get('ok'):
                    violation(r_['what'], case0, ast, text, **{'class': sig('inplace', r_['what'][:8]), 'inplace': r_['maps']})
            flags = sv.DEBUG if rng.random() < .15 else 0
            rec = Recorder()
            if flags:
                sv.purge()
            ev = rec.call('compile', sv.compile, text, nsmap, flags, custom=custom)
            bump('cases')
            if 'ret' not in ev:
                violation('compile(%r, namespaces=%r, flags=%r, custom=%r) did not return: %r' % (
                    text, nsmap, flags, custom, ev.get('exc', 'budget')), case0, ast, text, nsmap=nsmap, stage='compile',
                    **{'class': sig('compile-raise')})
                continue
            comp = ev['ret']
            if flags and '## PARSING' not in ev['stdout']:
                violation('compile(flags=DEBUG) printed nothing', case0, ast, text, **{'class': sig('debug-silent')})
            targets = [soup] + [rng.choice(all_els) for _ in range(min(3, len(all_els)))]
            for tgt in targets:
                tsn = case0.idmap[id(tgt)]
                ref = refsel.Ref(case0.top_sn, tsn, case0.is_xml, nsmap, custom_ast, ext)
                Tm, Um = ref.ev_list(ast, top=True)
                desc = ref.desc(tsn)
                unspec = any(e in Um for e in desc)
                exp_sel = [e.obj for e in desc if e in Tm]
                tk = 'doc' if isinstance(tgt, bs4.BeautifulSoup) else ('detached-root' if tgt is soup else 'el')
                rec = Recorder()
                checks = []          # (description, event, expected, comparer)

                def chk(desc_, ev, expected, kind='list'):
                    checks.append((desc_, ev, expected, kind))

                # --- compiled methods
                e_sel = rec.call('c.select', comp.select, tgt)
                chk('select', e_sel, ('partial', exp_sel, [e.obj for e in desc if e not in Tm and e not in Um]) if unspec else exp_sel)
                chk('iselect==select', rec.call('c.iselect', comp.iselect, tgt), ('same', e_sel))
                chk('select_one', rec.call('c.select_one', comp.select_one, tgt), ('first', e_sel), 'one')

                # iselect consumed lazily and interleaved with other queries on the same document must still yield the sequence
                def lazy():
                    it = comp.iselect(tgt)
                    out = []
                    first = next(it, None)
                    if first is not None:
                        out.append(first)
                        comp.select_one(tgt)                    # another query in between
                        it2 = comp.iselect(tgt, limit=2)
                        next(it2, None)
                        out.extend(it)
                        list(it2)
                    return out
                chk('iselect (lazy, interleaved) == select', rec.call('c.iselect', lazy), ('same', e_sel))
                for k in rng.sample(LIMITS, 3):
                    chk('select(limit=%d)' % k, rec.call('c.select', comp.select, tgt, k), ('prefix', e_sel, k))
                    chk('iselect(limit=%d)' % k, rec.call('c.iselect', comp.iselect, tgt, limit=k), ('prefix', e_sel, k))
                kids = ref.el_kids(tsn)
                f_unspec = any(e in Um for e in kids)
                chk('filter(tag)', rec.call('c.filter', comp.filter, tgt), None if f_unspec else [e.obj for e in kids if e in Tm])
                # closest
                exp_closest = None
                c_unspec = False
                cur = tsn if tsn.kind == 'el' else None
                while cur is not None:
                    if cur in Um:
                        c_unspec = True
                        break
                    if cur in Tm:
                        exp_closest = cur.obj
                        break
                    cur = ref.parent(cur)
                chk('closest', rec.call('c.closest', comp.closest, tgt), ('unspec',) if c_unspec else ('is', exp_closest), 'one')
                # match on the target itself (scope = itself)
                m_exp = ('is', False) if isinstance(tgt, bs4.BeautifulSoup) else (('unspec',) if tsn in Um else ('is', tsn in Tm))
                chk('match', rec.call('c.match', comp.match, tgt), m_exp, 'one')
                # filter(iterable): every item is matched with itself as scope
                pool = [rng.choice(all_els or [other.b]) for _ in range(3)] + [other.a, bs4.Comment('c'), other.div, soup,
                                                                  bs4.NavigableString('n')]
                rng.shuffle(pool)
                if rng.random() < .5:
                    # two consecutive items that have no parent at all and belong to different trees (detached fragments from
                    # different builders, the BeautifulSoup object next to a fragment): each item is its own tree
                    fa = bs4.BeautifulSoup('<div class="x" id="i1"><p class="y">t</p><span></span></div>', 'html.parser').div.extract()
                    fb = bs4.BeautifulSoup('<div class="x"><b/><p class="y">t</p></div>', 'xml').div.extract()
                    fc = bs4.BeautifulSoup('<p class="x y" lang="fr">t</p>', 'html.parser').p.extract()
                    pair = rng.sample([fa, fb, fc, soup], 2)
                    k_ = rng.randrange(len(pool) + 1)
                    pool[k_:k_] = pair
                    bump('filter_iterables_with_adjacent_parentless_items')
                exp_f = []
                fu = False
                for it in pool:
                    if not isinstance(it, bs4.Tag) or isinstance(it, bs4.BeautifulSoup):
                        continue
                    top_it = trees.topmost(it)
                    if top_it is case0.top_obj:
                        r_it = refsel.Ref(case0.top_sn, case0.idmap[id(it)], case0.is_xml, nsmap, custom_ast, ext)
                        v = r_it.match(ast, case0.idmap[id(it)])
                    else:
                        osn, omap = trees.snapshot(top_it)
                        r_it = refsel.Ref(osn, omap[id(it)], trees.is_xml_top(top_it), nsmap, custom_ast, ext)
                        v = r_it.match(ast, omap[id(it)])
                    if v is None:
                        fu = True
                    elif v:
                        exp_f.append(it)
                chk('filter(iterable)', rec.call('c.filter', comp.filter, list(pool)), None if fu else exp_f)
                # --- module-level functions == compile + method
                style = rng.randrange(3)

                def mod(fn, *extra, **kw):
                    if flags:
                        sv.purge()
                    if style == 0:
                        return rec.call('sv.' + fn.__name__, fn, text, tgt, nsmap, *extra, flags=flags, custom=custom, **kw)
                    if style == 1:
                        return rec.call('sv.' + fn.__name__, fn, text, tgt, namespaces=nsmap, flags=flags, custom=custom,
                                        **dict(kw, **({'limit': extra[0]} if extra else {})))
                    return rec.call('sv.' + fn.__name__, fn, select=text, tag=tgt, namespaces=nsmap, flags=flags,
                                    custom=custom, **dict(kw, **({'limit': extra[0]} if extra else {}))) \
                        if fn is not sv.filter else rec.call('sv.filter', fn, text, tgt, nsmap, flags, custom=custom)
                k = rng.choice(LIMITS)
                for nm, ev2, base in (
                        ('sv.select', mod(sv.select), e_sel),
                        ('sv.select(limit)', mod(sv.select, k), ('prefix', e_sel, k)),
                        ('sv.iselect', mod(sv.iselect), e_sel),
                        ('sv.select_one', mod(sv.select_one), ('first', e_sel)),
                        ('sv.filter', mod(sv.filter), checks[-6 - 0][1] if False else None),
                        ('sv.closest', mod(sv.closest), None),
                        ('sv.match', mod(sv.match), None)):
                    if flags and ev2.get('stdout') is not None and '## PARSING' not in ev2['stdout'] and 'ret' in ev2:
                        violation('%s(flags=DEBUG) after purge() printed no debug output: flags not forwarded' % nm,
                                  case0, ast, text, nsmap=nsmap, **{'class': sig('flags-dropped', nm)})
                    if nm == 'sv.filter':
                        base = ('same', [c for c in checks if c[0] == 'filter(tag)'][0][1])
                    elif nm == 'sv.closest':
                        base = ('same1', [c for c in checks if c[0] == 'closest'][0][1])
                    elif nm == 'sv.match':
                        base = ('same1', [c for c in checks if c[0] == 'match'][0][1])
                    elif isinstance(base, dict):
                        base = ('same', base)
                    chk(nm + ' == compile().method', ev2, base, 'one' if nm in ('sv.select_one', 'sv.closest', 'sv.match') else 'list')

                # reference-free: select(t) == [e for e in descendants(t) if match(e)] for :scope-free selectors
                if 'ret' in e_sel and ':scope' not in text and '&' not in text:
                    perel = []
                    okp = True
                    for el_ in tgt.descendants:
                        if isinstance(el_, bs4.Tag):
                            evm = rec.call('c.match', comp.match, el_)
                            if 'ret' not in evm:
                                okp = False
                                break
                            if evm['ret']:
                                perel.append(el_)
                    if okp:
                        chk('select == [e for e in descendants if match(e)]', e_sel, perel)
                # --- offline checker over the event log
                base_ok = 'ret' in e_sel
                for desc_, ev, expected, kind in checks:
                    res['evals'] += 1
                    bump('calls')
                    bump('op:' + ev['op'])
                    bump('target:' + tk)
                    if 'ret' not in ev:
                        violation('%s on %s target: %s did not return (%r) for %r' % (
                            desc_, tk, ev['op'], ev.get('exc', 'CPU budget'), text), case0, ast, text, nsmap=nsmap,
                            **{'class': sig('raise', desc_.split('(')[0], type(ev.get('exc')).__name__)})
                        continue
                    got = ev['ret']
                    ok = True
                    detail = ''
                    if expected is None:
                        bump('unspecified')
                        # still: no duplicates, only Tags, never the target itself (select)
                        if kind == 'list' and desc_ == 'select':
                            ok = len(set(ids(got))) == len(got) and all(isinstance(x, bs4.Tag) for x in got) and \
                                all(x is not tgt for x in got)
                    elif isinstance(expected, list):
                        ok = ids(got) == ids(expected)
                        detail = 'got %s, reference %s' % (cases.labels(got), cases.labels(expected))
                        if desc_ == 'select' and ok and expected and len(expected) < len(desc):
                            bump('nontrivial')
                            sigs.add(sig(sels.shape(ast), cases.tree_shape(case0.top_sn)[:40], tk))
                    elif expected[0] == 'partial':
                        # some elements are unspecified: the definitely matching ones must be there, the definitely non-matching ones not
                        bump('partially_specified')
                        gi = set(ids(got))
                        miss = [x for x in expected[1] if id(x) not in gi]
                        extra_ = [x for x in expected[2] if id(x) in gi]
                        ok = not miss and not extra_ and len(gi) == len(got)
                        detail = 'missing %s, unexpected %s (elements the reference leaves open are not counted)' % (cases.labels(miss), cases.labels(extra_))
                    elif expected[0] == 'unspec':
                        bump('unspecified')
                    elif expected[0] == 'is':
                        ok = got is expected[1] if not isinstance(expected[1], bool) else got is expected[1]
                        detail = 'got %r, reference %r' % (got, expected[1])
                    else:
                        b = expected[1]
                        if 'ret' not in b:
                            continue
                        if expected[0] == 'same':
                            ok = ids(got) == ids(b['ret'])
                            detail = 'got %s, base call %s' % (cases.labels(got), cases.labels(b['ret']))
                        elif expected[0] == 'same1':
                            ok = got is b['ret'] or (isinstance(got, bool) and got == b['ret'])
                            detail = 'got %r, method gave %r' % (got, b['ret'])
                        elif expected[0] == 'first':
                            ok = (got is b['ret'][0]) if b['ret'] else got is None
                            detail = 'got %r, select() gave %s' % (got, cases.labels(b['ret'][:2]))
                        elif expected[0] == 'prefix':
                            kk = expected[2]
                            want = b['ret'] if kk <= 0 else b['ret'][:kk]
                            ok = ids(got) == ids(want)
                            detail = 'got %s, want %s' % (cases.labels(got), cases.labels(want))
                    if not ok:
                        violation('%s disagrees for %r (namespaces=%r, custom=%s) on %s target <%s>: %s' % (
                            desc_, text, nsmap, bool(custom), tk, getattr(tgt, 'name', '?'), detail), case0, ast, text,
                            nsmap=nsmap, entry=desc_, **{'class': sig('disagree', desc_.split('(')[0])})
                if len(res['samples']) < 2 and exp_sel and not unspec:
                    res['samples'].append({'selector': text, 'namespaces': nsmap, 'custom': bool(custom), 'how': how,
                                           'target': tk, 'events': [(e['op'], ('ret' in e)) for e in rec.log][:30],
                                           'select_result': cases.labels(exp_sel)[:8]})
        bump('how:' + how)
    res['sigs'] = list(sigs)
    return res


def replay(w):
    """Re-run the witness: rebuild the tree, re-issue every entry point on every element, compare as in run_unit."""
    import bs4
    import soupsieve as sv
    tops = cases.rebuild(w)
    if w.get('inplace'):
        from vlib import inplace
        case_ = cases.Case(cases.rebuild(w), w['how'], w.get('target') or ['doc'], nsmap=w.get('nsmap'))
        for seed in range(40):
            r = inplace.sequence(sv, random.Random(seed), case_, w['ast'], w['selector'], w['inplace'][0], [NS1, NS2, 'urn:verif:three'], steps=6)
            if not r.get('ok'):
                return dict(w, status_now=r['what'])
        return None
    nsmap = w.get('nsmap')
    case0 = cases.Case(tops, w['how'], ['doc'], nsmap=nsmap)
    ast, text = w['ast'], w['selector']
    use_custom = '--al' in text or '--nest' in text.lower()
    custom = dict(CUSTOM_TEXT) if use_custom else None
    custom_ast = CUSTOM_AST if use_custom else {}
    bad = []
    try:
        comp = sv.compile(text, nsmap, custom=custom)
    except Exception as ex:  # noqa: BLE001
        return dict(w, status_now='compile raises %r' % ex)
    for tgt in [case0.soup] + [e for e in case0.soup.descendants if isinstance(e, bs4.Tag)]:
        tsn = case0.idmap[id(tgt)]
        ref = refsel.Ref(case0.top_sn, tsn, case0.is_xml, nsmap, custom_ast)
        exp, unspec = ref.select(ast, tsn)
        try:
            got = comp.select(tgt)
            if not unspec and ids(got) != [id(e.obj) for e in exp]:
                bad.append('select on <%s>' % tgt.name)
            if ids(list(comp.iselect(tgt))) != ids(got):
                bad.append('iselect')
            if ids(sv.select(text, tgt, nsmap, custom=custom)) != ids(got):
                bad.append('sv.select')
            for k in LIMITS:
                if ids(comp.select(tgt, k)) != ids(got if k <= 0 else got[:k]):
                    bad.append('limit %d' % k)
            one = comp.select_one(tgt)
            if (one is not got[0]) if got else one is not None:
                bad.append('select_one')
            if sv.select_one(text, tgt, nsmap, custom=custom) is not one:
                bad.append('sv.select_one')
            if ids(sv.filter(text, tgt, nsmap, custom=custom)) != ids(comp.filter(tgt)):
                bad.append('sv.filter')
            if sv.closest(text, tgt, nsmap, custom=custom) is not comp.closest(tgt):
                bad.append('sv.closest')
            if sv.match(text, tgt, nsmap, custom=custom) != comp.match(tgt):
                bad.append('sv.match')
            Tm, Um = ref.ev_list(ast, top=True)
            kids = ref.el_kids(tsn)
            if not any(e in Um for e in kids) and ids(comp.filter(tgt)) != [id(e.obj) for e in kids if e in Tm]:
                bad.append('filter(tag) on <%s>' % tgt.name)
        except Exception as ex:  # noqa: BLE001
            bad.append('raise %r' % ex)
    if not bad:
        return None
    return dict(w, status_now=sorted(set(bad))[:10])


def inconclusive(cn, tier):
    out = []
    if cn.get('nontrivial', 0) < (1500 if tier == 'quick' else 50000):
        out.append('too few non-trivial select comparisons: %d' % cn.get('nontrivial', 0))
    for op in ('c.select', 'c.iselect', 'c.select_one', 'c.filter', 'c.closest', 'c.match', 'sv.select', 'sv.iselect',
               'sv.select_one', 'sv.filter', 'sv.closest', 'sv.match'):
        if cn.get('op:' + op, 0) < 100:
            out.append('entry point %s observed only %d times' % (op, cn.get('op:' + op, 0)))
    return out
