"""C11 - name and value case rules follow the document type.

Oracle: reference semantics (vlib/refsel.py) under the document-kind rules of docs/api.md: HTML documents compare tag
and attribute names ASCII-case-insensitively and values case-sensitively except `type`; XML and XHTML documents
compare everything case-sensitively; i / s force the comparison; HTML-only pseudo-classes never match in a document
that is XML but not XHTML.
Workload: one logical tree materialised as HTML (html.parser, lxml, html5lib, API-built with mixed-case names),
XHTML and XML; selectors with case variants of every name and value, ASCII and non-ASCII cased letters in names.
"""
import random

from vlib import cases, monitors, sels, shrink, trees
from vlib.runner import sig
from vlib.trees import E, T, NS_XHTML

ID = 'C11'
LEVEL = 'exploration'
ANCHORS = ['CSSMatch.__init__', 'CSSMatch.supports_namespaces', 'CSSMatch.get_tag', 'CSSMatch.match_tagname',
           '_DocumentNav.get_attribute_by_name', 'CSSMatch.match_attribute_name', 'CSSMatch.match_attributes',
           'CSSParser.parse_attribute_selector', 'lower', 'CSSMatch.match_selectors']
RULE = ('random logical trees (names a/p/div/span/x with ASCII case variants, non-ASCII cased letters é/É/ǆ/ǅ and the '
        'Kelvin sign in tag and attribute names; type/title/data-* values with case variants) materialised seven ways '
        '(html.parser, lxml, html5lib, API-built HTML with mixed-case names, XML, API-built XML, XHTML) x selectors whose '
        'names and values are random case variants of the tree vocabulary, with and without i/s; plus every HTML-only '
        'pseudo-class on XML documents (plain, and with XHTML-namespaced descendants under a foreign root).  Non-trivial = '
        'expected set neither empty nor everything; distinct = distinct (selector shape, materialisation, tree shape).')
RULE += (' Round-4 additions: attribute selectors also in the *| and | forms; the HTML-only pseudo-classes on a foreign-root XML document are asked from the document and from its XHTML-namespaced elements (select, match, closest, filter).')
ASSUMPTIONS = [
    'document kind per docs/api.md (XML iff built by an XML builder; XHTML iff XML and the root is in the XHTML namespace)',
    'case-insensitive *value* comparisons (type, i flag) are generated over ASCII letters and uncased characters only; names '
    'may carry any cased letter because the statement says ASCII case',
    'no two attributes of one element differ only by ASCII case',
]

BASE = ['a', 'p', 'div', 'span', 'x', 'svg', 'item']
NONASCII = ['xé', 'xÉ', 'xǆ', 'xǅ', 'xK', 'xk', 'zé', 'azé']        # é/É, dž digraphs, KELVIN SIGN vs k
ATTRN = ['title', 'data-x', 'type', 'data-é', 'data-É', 'dataK', 'lang', 'viewBox', 'preserveAspectRatio', 'kind', 'data-zé']
TYPEV = ['text', 'TEXT', 'Text', 'radio', 'x']
VALS = ['x', 'X', 'xY', 'xy', 'XY', 'é', 'x y', '']
HTML_ONLY = [':any-link', ':link', ':checked', ':default', ':disabled', ':enabled', ':indeterminate', ':optional', ':required',
             ':read-only', ':read-write', ':placeholder-shown', ':in-range', ':out-of-range', ':dir(ltr)', ':dir(rtl)', ':defined']
HOWS = ['html.parser', 'lxml', 'html5lib', 'api', 'xml', 'api-xml', 'xhtml']


def variant(rng, s):
    r = rng.random()
    if r < .4:
        return s
    if r < .6:
        return s.upper()
    if r < .75:
        return s.lower()
    return ''.join((c.upper() if rng.random() < .5 else c.lower()) for c in s)


def gen_tree(rng):
    budget = [rng.randint(2, 14)]

    def attrs():
        a = {}
        used = set()
        for _ in range(rng.choice([0, 1, 1, 2, 3])):
            n = variant(rng, rng.choice(ATTRN)) if rng.random() < .5 else rng.choice(ATTRN)
            key = ''.join(chr(ord(c) + 32) if 'A' <= c <= 'Z' else c for c in n)
            if key in used:
                continue
            used.add(key)
            a[n] = rng.choice(TYPEV) if key == 'type' else rng.choice(VALS)
        if rng.random() < .3:
            a['id'] = rng.choice(['i1', 'I1', 'x'])
        if rng.random() < .3:
            a['class'] = [rng.choice(['k', 'K', 'x'])]
        return a

    def el(d):
        budget[0] -= 1
        nm = rng.choice(BASE + NONASCII)
        nm = variant(rng, nm) if rng.random() < .5 else nm
        e = E(nm, attrs())
        while budget[0] > 0 and d < 4 and rng.random() < .6:
            e.kids.append(el(d + 1))
            if rng.random() < .3:
                e.kids.append(T('text', rng.choice([' ', 't'])))
        return e
    return el(0)


def materialise(root, how):
    if how.endswith('+graft'):
        base = how[:-6]
        inner = {'xhtml': 'xml'}.get(base, base)
        if base == 'xhtml':
            html = E('html', {}, [E('head'), E('body', {}, [root])], nsdecl={'': NS_XHTML})
            return trees.materialise([html], 'xml+graft')
        if base in ('xml', 'api-xml'):
            return trees.materialise([E('root', {}, [root])], base + '+graft')
        if base == 'api':
            return trees.materialise([E('html', {}, [E('body', {}, [root])])], 'api+graft')
        return trees.materialise([E('html', {}, [E('head'), E('body', {}, [root])])], inner + '+graft')
    if how == 'xhtml':
        html = E('html', {}, [E('head'), E('body', {}, [root])], nsdecl={'': NS_XHTML})
        return trees.materialise([html], 'xml')
    if how in ('xml', 'api-xml'):
        return trees.materialise([E('root', {}, [root])], how)
    if how == 'api':
        return trees.materialise([E('html', {}, [E('body', {}, [root])])], 'api')
    return trees.materialise([E('html', {}, [E('head'), E('body', {}, [root])])], how)


class Case(cases.Case):
    def __init__(self, root, how, target=('doc',)):
        self.tops, self.how, self.target = [root], how, list(target)
        self.nsmap = self.custom = self.ext = self.live_ns = None
        self.soup = materialise(root, how)
        self.top_obj, self.target_obj = cases.pick_target(self.soup, self.target)
        self.top_sn, self.idmap = trees.snapshot(self.top_obj)
        self.is_xml = trees.is_xml_top(self.top_obj)
        self.target_sn = self.idmap[id(self.target_obj)]


def plan(tier, seed):
    n = 96 if tier == 'quick' else 1600
    per = 120 if tier == 'quick' else 300
    return [{'seed': seed * 50021 + i, 'n': per} for i in range(n)]


def _cfg(rng):
    return sels.Cfg(names=BASE + NONASCII + ['html', 'body'], attrs=ATTRN + ['id', 'class'], vals=VALS + TYPEV, case_names=True,
                    ids=['i1', 'I1', 'x'], classes=['k', 'K', 'x'], p_id=.12, p_class=.15, p_attr=.5, p_struct=.1, p_more=.3,
                    p_logical=.25, attr_prefixes=[None, None, None, '*', '*', ''])


def safe_ast(ast):
    """Keep case-insensitive value comparisons inside ASCII (Section 3 of DESIGN.md): drop the i flag / type rule when
    the selector value or nothing else is affected - done by construction: VALS/TYPEV contain only 'é' as non-ASCII,
    which is lower-case and has no upper-case partner in the vocabulary."""
    return ast


def run_unit(u):
    import soupsieve as sv
    rng = random.Random(u['seed'])
    res = {'evals': 0, 'sigs': [], 'viol': [], 'samples': [], 'counters': {}}
    cn = res['counters']
    sigs = set()
    cfg = _cfg(rng)

    def bump(k, n=1):
        cn[k] = cn.get(k, 0) + n

    for it in range(u['n']):
        root = gen_tree(rng)
        asts = [sels.gen_list(rng, rng.choice([0, 1, 1, 2]), cfg) for _ in range(5)]
        for how in HOWS + [rng.choice(HOWS) + '+graft']:
            try:
                case = Case(root, how, ('doc',) if not how.endswith('+graft') or rng.random() < .3 else ('el', rng.randrange(1000)))
            except Exception:  # noqa: BLE001 - a parser rejecting the markup (e.g. an XML name) is not the subject
                bump('materialise_failed:' + how)
                continue
            for ast in asts:
                st, info = cases.compare_select(sv, case, ast, cases.respelled(rng, ast, .25), match_law=how.endswith('+graft'))
                res['evals'] += 1
                bump('how:' + how)
                if st == 'unspec':
                    bump('unspecified')
                    continue
                if st == 'agree':
                    if info['nontrivial']:
                        bump('nontrivial')
                        sigs.add(sig(sels.shape(ast), how, cases.tree_shape(case.top_sn)))
                        if len(res['samples']) < 2:
                            res['samples'].append({'selector': info['text'], 'how': how, 'markup': trees.describe(case.soup, 200),
                                                   'selected': info['n_exp']})
                    continue
                bump('VIOL')
                if len(res['viol']) < 8:
                    def fails(tops, a, how=how, st=st):
                        c2 = Case(tops[0], how)
                        return cases.compare_select(sv, c2, a)[0] == st
                    try:
                        stops, sast = shrink.shrink([root], ast, fails, budget=200)
                        scase = Case(stops[0], how)
                        sst, sinfo = cases.compare_select(sv, scase, sast)
                        if sst != st:
                            scase, sast, sinfo = case, ast, info
                    except Exception:  # noqa: BLE001
                        scase, sast, sinfo = case, ast, info
                    what = '%s on %s document: select(%s) on %s' % (st, how, ascii(sinfo['text']), ascii(trees.describe(scase.soup, 200)))
                    if st == 'DISAGREE':
                        what += ' -> got %s, case rules say %s' % (ascii(sinfo.get('got')), ascii(sinfo.get('exp')))
                    else:
                        what += ' -> ' + sinfo.get('exc', '')
                    res['viol'].append(scase.witness(sast, sinfo['text'], what, **{'class': sig(st, how, sels.shape(sast))}))
        # HTML-only pseudo-classes in XML that is not XHTML
        for how in (('xml', 'api-xml', 'xml-foreign-root') if it % 5 == 0 else ()):
            r2 = root
            if how == 'xml-foreign-root':
                # a root outside the XHTML namespace with XHTML-namespaced descendants (e.g. an Atom feed carrying XHTML)
                inner = E('div', {'dir': 'rtl'}, [E('input', {'type': 'checkbox', 'checked': '', 'required': ''}), E('a', {'href': 'u'}, [T('text', 't')]),
                                                   E('input', {'type': 'number', 'min': '1', 'value': '5'}), root], prefix='h', ns=NS_XHTML)
                top = E('feed', {}, [inner], nsdecl={'h': NS_XHTML, '': 'urn:feed'})
                soup = trees.materialise([top], 'xml')
            else:
                form = E('form', {}, [E('input', {'type': 'checkbox', 'checked': '', 'required': ''}), E('a', {'href': 'u'}),
                                      E('input', {'type': 'submit'}), E('textarea', {'placeholder': 'p'}), root])
                soup = trees.materialise([E('root', {'dir': 'ltr'}, [form])], how)
            import bs4
            xh = [e for e in soup.descendants if isinstance(e, bs4.Tag) and e.namespace == NS_XHTML]

            def scoped(sel):
                # the document kind is a property of the document, not of the element the call starts from
                out = []
                for e in xh[:6]:
                    out += sv.select(sel, e, {'h': NS_XHTML})
                    out += [e] if sv.match(sel, e, {'h': NS_XHTML}) else []
                    c = sv.closest(sel, e, {'h': NS_XHTML})
                    out += [c] if c is not None else []
                    out += sv.filter(sel, e, {'h': NS_XHTML})
                return out
            for pc in HTML_ONLY:
                for sel in (pc, '*' + pc, 'input' + pc, ':is(%s)' % pc, 'root %s, feed %s' % (pc, pc)):
                    st, got = monitors.guarded_call(sv.select, sel, soup, {'h': NS_XHTML})
                    res['evals'] += 1
                    bump('html_only_in_xml')
                    if st == 'ok' and not got and xh and sel in (pc, 'input' + pc):
                        st, got = monitors.guarded_call(scoped, sel)
                        bump('html_only_in_xml_element_scope')
                    if st != 'ok' or got:
                        bump('VIOL')
                        if len(res['viol']) < 8:
                            res['viol'].append({'what': 'HTML-only %s matched in an XML (non-XHTML) document [%s]: %s' % (
                                sel, how, [x.name for x in got] if st == 'ok' else repr(got)), 'selector': sel, 'html_only': how,
                                'markup': trees.describe(soup, 500), 'tree': [root.to_json()], 'class': sig('html-only', pc, how)})
                    else:
                        sigs.add(sig(sel, how))
    res['sigs'] = list(sigs)
    return res


def replay(w):
    import soupsieve as sv
    if 'html_only' in w:
        from bs4 import BeautifulSoup
        soup = BeautifulSoup(w['markup'], 'xml')
        st, got = monitors.guarded_call(sv.select, w['selector'], soup, {'h': NS_XHTML})
        return dict(w, status_now=repr(got)[:200]) if (st != 'ok' or got) else None
    root = trees.from_json(w['tree'][0])
    case = Case(root, w['how'])
    st, info = cases.compare_select(sv, case, w['ast'], w.get('selector'))
    if st in ('agree', 'unspec'):
        return None
    return dict(w, status_now=st, observed=info)


def inconclusive(cn, tier):
    out = []
    if cn.get('nontrivial', 0) < (5000 if tier == 'quick' else 200000):
        out.append('too few non-trivial comparisons: %d' % cn.get('nontrivial', 0))
    for h in HOWS:
        if cn.get('how:' + h, 0) < 500:
            out.append('materialisation %s compared only %d times' % (h, cn.get('how:' + h, 0)))
    if cn.get('html_only_in_xml', 0) < 1000:
        out.append('HTML-only-in-XML workload too small')
    return out
