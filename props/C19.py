"""C19 - text pseudo-classes see exactly the character data CSS/HTML count as content.

Oracle: reference text content on a snapshot of the same tree: :-soup-contains(t1, ...) <=> some ti is a substring of
the concatenation, in document order, of the descendant nodes that are NavigableString but not Comment / CData /
ProcessingInstruction / Declaration / Doctype (content of a nested iframe cut in HTML documents); -own <=> substring of
one such direct child; :empty <=> no element child and no such child with a character outside [ \\t\\r\\n\\f].
"""
import random

from vlib import cases, monitors, refsel, sels, shrink, trees
from vlib.runner import sig
from vlib.trees import E, T, NS_XHTML

ID = 'C19'
LEVEL = 'exploration'
ANCHORS = ['_DocumentNav.is_content_string', '_DocumentNav.is_special_string', '_DocumentNav.get_descendants', '_DocumentNav.get_text',
           '_DocumentNav.get_own_text', 'CSSMatch.match_contains', 'CSSParser.parse_pseudo_contains', 'CSSMatch.match_empty']
RULE = ('random trees interleaving all seven node kinds (text, blank text, comment, CDATA, processing instruction, doctype, '
        'declaration) with elements at every depth, built through the bs4 API (HTML and XML flavoured) and parsed by '
        'html.parser/lxml/html5lib/lxml-xml, with iframes whose content is markup (html.parser, API); needles are cut from the '
        'real concatenation (spanning node boundaries and reaching into comment/CDATA text), plus empty, absent, quote/backslash/'
        'newline/astral needles, lists of needles, both kinds in one compound, the deprecated alias and :empty.  Non-trivial = '
        'expected set neither empty nor everything; distinct = distinct (selector shape, needle class, tree shape).')
RULE += (' Round-3/4 additions: elements merely called iframe in the SVG namespace (html5lib, API) and XHTML through the XML parser with IFrame/IFRAME look-alike names.')
ASSUMPTIONS = [
    'an element is an iframe (content cut) when its name is iframe in an HTML document (HTML namespace where namespaces are meaningful)',
    'the empty needle occurs in every string, so :-soup-contains("") holds for every element and -own("") for every element with a text child',
]

TEXTS = ['\U0010ffffq', 'q\ufffd', 'alpha', 'be ta', 'gam"ma', "del'ta", 'eps\\ilon', 'ze\nta', ' ', '\n', 'x', 'xy', 'yx', '\U0001f600z', 'éa', 't', '', 'a,b', 'a)b', '(']
NAMES = ['p', 'div', 'span', 'b', 'li', 'rt', 'rp', 'ruby']
KINDS = ['text', 'text', 'text', 'blank', 'comment', 'cdata', 'pi', 'doctype', 'decl']


def gen_tree(rng, iframes, foreign=None, look_alikes=False, api_case=False):
    """foreign: None, 'markup' (html5lib: <svg><iframe>text</iframe></svg> stays in the SVG namespace) or 'api' (explicit namespaces)."""
    budget = [rng.randint(2, 16)]
    NS_SVG = 'http://www.w3.org/2000/svg'

    def foreign_iframe():
        # an element *called* iframe that is not an HTML iframe: ordinary content
        kw = {'ns': NS_SVG} if foreign == 'api' else {}
        fr = E('iframe', {}, [T('text', rng.choice(TEXTS))], **kw)
        if rng.random() < .4:
            fr.kids += [E('g', {}, [T('text', rng.choice(TEXTS))], **kw)]
        return E('svg', {}, ([T('text', rng.choice(TEXTS))] if rng.random() < .3 else []) + [fr], **kw)

    def filler():
        out = []
        for _ in range(rng.choice([0, 1, 1, 2, 3])):
            k = rng.choice(KINDS)
            if k == 'blank':
                out.append(T('text', rng.choice([' ', '\n', '\t ', '\f', '\r\n'])))
            elif k == 'text':
                out.append(T('text', rng.choice(TEXTS)))
            elif k == 'doctype':
                out.append(T('doctype', 'html'))
            elif k == 'decl':
                out.append(T('decl', 'ELEMENT x'))
            elif k == 'pi':
                out.append(T('pi', rng.choice(TEXTS[:4]) + ' q'))
            else:
                out.append(T(k, rng.choice(TEXTS)))
        return out

    def el(depth):
        budget[0] -= 1
        nm = rng.choice(NAMES + (['iframe'] if iframes and depth > 0 and rng.random() < .3 else []))
        if look_alikes and depth > 0 and rng.random() < .2:
            nm = rng.choice(['IFrame', 'IFRAME', 'Iframe'])       # XML is case-sensitive: these are ordinary elements
        real = nm == 'iframe'
        if real and api_case and rng.random() < .5:
            nm = rng.choice(['IFRAME', 'IFrame'])                  # HTML names are case-insensitive: still an iframe (API-made)
        e = E(nm)
        if rng.random() < .2:
            e.attrs['class'] = ['x']
        e.kids += filler()
        if real:
            inner = E('html', {}, [E('body', {}, filler() + [el(depth + 1)] + filler())]) if budget[0] > 0 else E('html')
            e.kids = ([inner] + (filler() if rng.random() < .3 else [])) if rng.random() < .85 else e.kids + [inner]
            return e
        while budget[0] > 0 and depth < 5 and rng.random() < .6:
            e.kids.append(el(depth + 1))
            e.kids += filler()
        if foreign and nm != 'p' and rng.random() < .25:
            e.kids.append(foreign_iframe())
        if foreign == 'api':
            e.ns = NS_XHTML
        return e
    return el(0)


def ref_text(ref, e, own):
    def is_iframe(n):
        return n.kind == 'el' and ref.is_html and ref.nm(n.name) == 'iframe' and (not ref.ns_aware or n.ns == NS_XHTML)
    if is_iframe(e):
        return [] if own else ''
    if own:
        return [k.text for k in e.kids if k.kind == 'text']
    out = []

    def rec(n):
        for k in n.kids:
            if k.kind == 'text':
                out.append(k.text)
            elif k.kind == 'el' and not is_iframe(k):
                rec(k)
    rec(e)
    return ''.join(out)


def contains_ext(ref, e, p):
    own, texts = p[1], p[2]
    content = ref_text(ref, e, own)
    if own:
        return any(t in c for t in texts for c in content)
    return any(t in content for t in texts)


def all_text(top_sn, with_special):
    out = []

    def rec(n):
        for k in n.kids:
            if k.kind == 'text' or (with_special and k.kind in ('comment', 'cdata')):
                out.append(k.text)
            elif k.kind == 'el':
                rec(k)
    rec(top_sn)
    return ''.join(out)


def gen_needle(rng, case):
    r = rng.random()
    if r < .5:
        s = all_text(case.top_sn, with_special=rng.random() < .3)
        if s:
            i = rng.randrange(len(s))
            return s[i:i + rng.choice([1, 2, 3, 5, 8])], 'cut'
    if r < .6:
        return '', 'empty'
    if r < .8:
        return rng.choice(TEXTS), 'vocab'
    return rng.choice(['\U0010ffff', '\ufffd', '\U0010ffffq', 'zzz', '"', "'", '\\', '\\\\', '\n', 'a"b', "'a'", '"a"', 'a\\"', '\U0001f600', ' i', ')', ',', 'x,y', '*/', '\\"']), 'hostile'


def _plan0(tier, seed):
    n = 96 if tier == 'quick' else 1600
    per = 320 if tier == 'quick' else 700
    return [{'seed': seed * 45007 + i, 'n': per} for i in range(n)]


def plan(tier, seed):
    """... plus the shared 'lazy' units: iselect consumed step by step while the caller edits, between two items, exactly what
    this property's pseudo-classes depend on (vlib/lazy.py; the rest of the iteration must be what the selector designates on
    the tree as it is now)."""
    units = _plan0(tier, seed)
    themes = ['text']
    k = 16 if tier == 'quick' else 160
    units += [{'kind': 'lazy', 'theme': themes[i % len(themes)], 'seed': seed * 65521 + i, 'n': 60 if tier == 'quick' else 200} for i in range(k)]
    fthemes = ['text']
    units += [{'kind': 'faultcompile', 'theme': fthemes[i % len(fthemes)], 'seed': seed * 32749 + i, 'n': 150 if tier == 'quick' else 500}
              for i in range(8 if tier == 'quick' else 80)]
    return units


def run_unit(u):
    import warnings
    import soupsieve as sv
    warnings.simplefilter('ignore')
    rng = random.Random(u['seed'])
    res = {'evals': 0, 'sigs': [], 'viol': [], 'samples': [], 'counters': {}}
    cn = res['counters']
    sigs = set()
    ext = {'contains': contains_ext}

    def bump(k, n=1):
        cn[k] = cn.get(k, 0) + n

    for _ in range(u['n']):
        how = rng.choice(['api', 'api', 'api-xml', 'html.parser', 'html.parser', 'lxml', 'html5lib', 'xml'])
        iframes = how in ('api', 'html.parser')
        foreign = 'markup' if how == 'html5lib' and rng.random() < .5 else None
        if how == 'api' and rng.random() < .2:
            foreign = 'api'
        root = gen_tree(rng, iframes and not foreign, foreign, api_case=how == 'api')
        if foreign:
            bump('foreign-iframe:' + how)
        xhtml = how == 'xml' and rng.random() < .35
        if xhtml:
            # XHTML through the XML parser: iframe content is parsed into elements, names are case-sensitive
            root = gen_tree(rng, True, None, look_alikes=True)
            html = E('html', {}, [E('body', {}, [root])], nsdecl={'': NS_XHTML})

            def setns(e):
                e.ns = NS_XHTML
                for k in e.kids:
                    if isinstance(k, E):
                        setns(k)
            setns(html)
            tops = [html]
            bump('xhtml-via-xml')
        elif foreign == 'api':
            tops = [E('html', {}, [E('body', {}, [root], ns=NS_XHTML)], ns=NS_XHTML)]
        else:
            tops = [root] if rng.random() < .5 else [E('html', {}, [E('body', {}, [root])])]
        if how in ('api', 'api-xml') and rng.random() < .4:
            tops = [T('doctype', 'html'), T('comment', 'top alpha')] + tops + [T('text', 'tail')]
        try:
            case = cases.Case(tops, how, ['doc'] if rng.random() < .7 else ['el', rng.randrange(1000)], ext=ext)
        except Exception:  # noqa: BLE001
            bump('materialise_failed')
            continue
        for _s in range(7):
            kinds = []
            pseudos = []
            for _p in range(rng.choice([1, 1, 1, 2])):
                own = rng.random() < .4
                needles = []
                for _n in range(rng.choice([1, 1, 2, 3])):
                    nd, k = gen_needle(rng, case)
                    needles.append(nd)
                    kinds.append(k)
                alias = 'contains' if (not own and rng.random() < .1) else None
                pseudos.append(('contains', own, needles, alias))
            comp = {'tag': (None, rng.choice(NAMES + ['*', 'iframe', 'body', 'IFrame'])) if rng.random() < .6 else None, 'ids': [], 'classes': [],
                    'attrs': [], 'pseudos': pseudos}
            r = rng.random()
            if r < .12:
                comp['pseudos'].append(('empty',))
            elif r < .2:
                comp = {'tag': comp['tag'], 'ids': [], 'classes': [], 'attrs': [], 'pseudos': [('empty',)]}
            elif r < .3:
                comp = {'tag': None, 'ids': [], 'classes': [], 'attrs': [], 'pseudos': [('not', [[comp]])]}
            ast = [[comp]] if rng.random() < .8 else [[{'tag': (None, rng.choice(NAMES)), 'ids': [], 'classes': [], 'attrs': [], 'pseudos': []},
                                                       rng.choice([' ', '>']), comp]]
            text = sels.render_tokens(sels.tok_list(ast), prefer_string=rng.random() < .8) if rng.random() < .7 else cases.respelled(rng, ast, 1.0)
            st, info = cases.compare_select(sv, case, ast, text)
            res['evals'] += 1
            bump('how:' + how)
            for k in set(kinds):
                bump('needle:' + k)
            if st == 'unspec':
                bump('unspecified')
                continue
            if st == 'agree':
                if info['nontrivial']:
                    bump('nontrivial')
                    sigs.add(sig(sels.shape(ast), tuple(sorted(set(kinds))), cases.tree_shape(case.top_sn)))
                    if len(res['samples']) < 2:
                        res['samples'].append({'selector': text, 'how': how, 'markup': trees.describe(case.soup, 260), 'selected': info['n_exp'],
                                               'of': info['n_all']})
                continue
            bump('VIOL')
            if len(res['viol']) < 8:
                target = case.target

                def fails(tops2, a, how=how, target=target, st=st):
                    c2 = cases.Case(tops2, how, target, ext=ext)
                    return cases.compare_select(sv, c2, a)[0] == st
                try:
                    stops, sast = shrink.shrink(tops, ast, fails, budget=200)
                    scase = cases.Case(stops, how, target, ext=ext)
                    sst, sinfo = cases.compare_select(sv, scase, sast)
                    if sst != st:
                        scase, sast, sinfo = case, ast, info
                except Exception:  # noqa: BLE001
                    scase, sast, sinfo = case, ast, info
                what = '%s: select(%s) on %s document %s' % (st, ascii(sinfo['text']), how, ascii(trees.describe(scase.soup, 300)))
                what += (' -> got %s, text rules say %s' % (sinfo.get('got'), sinfo.get('exp'))) if st == 'DISAGREE' else ' -> ' + sinfo.get('exc', '')
                res['viol'].append(scase.witness(sast, sinfo['text'], what, **{'class': sig(st, how in ('xml', 'api-xml'), sels.shape(sast))}))
    res['sigs'] = list(sigs)
    return res


def replay(w):
    import warnings
    import soupsieve as sv
    warnings.simplefilter('ignore')
    tops = cases.rebuild(w)
    case = cases.Case(tops, w['how'], w['target'], ext={'contains': contains_ext})
    st, info = cases.compare_select(sv, case, w['ast'], w.get('selector'))
    if st in ('agree', 'unspec'):
        return None
    return dict(w, status_now=st, observed=info)


def inconclusive(cn, tier):
    out = []
    if cn.get('nontrivial', 0) < (15000 if tier == 'quick' else 500000):
        out.append('too few non-trivial comparisons: %d' % cn.get('nontrivial', 0))
    for k in ('foreign-iframe:html5lib', 'foreign-iframe:api', 'xhtml-via-xml', 'how:api', 'how:api-xml', 'how:html.parser', 'how:lxml', 'how:html5lib', 'how:xml', 'needle:cut', 'needle:empty', 'needle:hostile'):
        if cn.get(k, 0) < 200:
            out.append('%s only %d' % (k, cn.get(k, 0)))
    return out
