"""C04 - answers do not depend on query history; matching never mutates the tree.

Monitors (all at the API boundary):
  (a) pristine twin      - every call of a history is repeated on a freshly built copy of the document after
                           purge(); results are compared as element indices;
  (b) select vs match    - for :scope-free selectors, membership in select(target) must equal match(element) asked
                           for each element alone (the memo tables live for one call, so this is where a memo bug
                           shows);
  (c) mutation tripwire  - structural fingerprint of the tree (serialisation, per node: identity, class, name,
                           id(attrs), deep copy of attrs with value *types*, parent/sibling identities, instance
                           dict keys) before and after every call, plus recording wrappers on bs4's mutators
                           while the call runs.
"""
import random

from vlib import cases, htmlgen, monitors, sels, trees
from vlib.runner import sig
from vlib.trees import E, T

ID = 'C04'
LEVEL = 'exploration'
ANCHORS = ['CSSMatch.match_lang', 'CSSMatch.match_default', 'CSSMatch.match_indeterminate', 'CSSMatch.match_selectors',
           'CSSMatch.match_dir', 'CSSMatch.get_classes']
RULE = ('histories of 6-30 steps; a step is a call (select, iselect, select_one, match, filter, closest; module functions and compiled objects) '
        'or an edit of the document by the caller between calls (set/delete attribute, insert submit button / checked radio / <meta> / '
        'form, remove element, append text; the same edits are replayed on the pristine twin); 35% of the histories are themed (one '
        'stateful pseudo-class queried repeatedly while exactly what it depends on is edited); '
        'calls: (select, iselect, select_one, match, filter, closest; module functions and compiled '
        'objects) on one document, selectors biased to the memoising / state pseudo-classes (:lang with and without '
        '<meta>, :default, :indeterminate, :dir, :checked, :root) and to class/attribute selectors on string-valued '
        'class attributes, targets = document and random elements; documents = generated form documents (0-3 forms, '
        'nested forms, radio groups, iframes, twins) and generic trees, built by the bs4 API or parsed by four '
        'parsers.  In namespaced histories the caller keeps one namespaces dict that it refills before each query and re-uses compiled objects it made earlier (the twin compiles afresh from a copy).  Every call is judged by the three monitors.  Non-trivial = a call whose result is non-empty / '
        'True; distinct = distinct (selector, op, document shape).')
ASSUMPTIONS = [
    'a freshly materialised copy of the same recipe with the same parser is the pristine twin',
    'bs4 mutators other than the wrapped ones (direct dict writes are caught by the attrs snapshot) do not exist',
]

MEMO = [':lang("")', ':lang(en)', ':lang("*-US")', ':lang(de, fr)', ':default', ':indeterminate', ':dir(ltr)', ':dir(rtl)',
        ':checked', 'form :default', 'input:indeterminate', ':root', ':root :lang(en)', ':enabled', ':disabled',
        ':in-range', ':out-of-range', ':placeholder-shown', ':read-write', ':required', ':optional', ':link',
        'input:default ~ :indeterminate', ':not(:lang(en))', ':is(:default, :indeterminate)', ':has(:default)',
        '.x', '.y.x', 'p.x', '[class="x"]', '[class~=y]', '[class]', 'span.x, p.y', ':not(.x)', '#i1', '[id=x]',
        ':nth-child(2)', ':nth-last-of-type(odd)', ':empty', ':-soup-contains(t)', ':defined', 'input[type=radio]:not(:checked)']
OPS = ['select', 'select', 'select', 'iselect', 'select_one', 'match', 'match', 'filter', 'closest']
NS1, NS2 = 'urn:verif:one', 'urn:verif:two'
NSMAP = {'p1': NS1, 'p2': NS2}
NSMAPS = [NSMAP, NSMAP, {'p1': NS2, 'p2': NS1}, {'p1': NS1}, {'p1': NS1, 'p2': NS2, '': NS1}]
NS_MEMO = ['p1|*:not(:checked)', 'p1|a, :disabled', ':is(:link, p2|b)', 'p1|p:not(:default) ~ p2|*', 'p2|*:not(:enabled) p1|*', ':not(:read-write, p1|*)',
           'p1|*', 'p2|span.x', ':required, p1|li', 'p1|*:not(:dir(ltr))', ':indeterminate, :in-range, p2|*', '*|*:not(:checked):first-child']


def plan(tier, seed):
    n = 96 if tier == 'quick' else 2400
    per = 80 if tier == 'quick' else 160
    nf = 48 if tier == 'quick' else 640
    return [{'kind': 'suite'}] + [{'seed': seed * 424243 + i, 'n': per} for i in range(n)] + \
        [{'kind': 'fault', 'seed': seed * 99991 + i, 'n': 12 if tier == 'quick' else 40} for i in range(nf)]


def suite_replay():
    """The repository's own tests with the recorder and the reference-free monitors on (tools/suite_replay_plugin.py)."""
    import json
    import os
    import subprocess
    import tempfile
    from vlib import env
    res = {'evals': 0, 'sigs': [], 'viol': [], 'samples': [], 'counters': {}}
    tests = os.path.join(env.REPO, 'tests')
    if not os.path.isdir(tests):
        res['counters']['suite_replay_absent'] = 1
        return res
    fd, out = tempfile.mkstemp(suffix='.json')
    os.close(fd)
    e = dict(os.environ, SOUPSIEVE_VERIF='1', SOUPSIEVE_VERIF_OUT=out, PYTHONPATH=os.path.join(env.VERIF, 'tools') + os.pathsep + env.REPO)
    try:
        r = subprocess.run([env.PYTHON, '-m', 'pytest', '-q', '-p', 'no:cacheprovider', '-p', 'suite_replay_plugin', '-x', tests],
                           cwd=env.REPO, env=e, capture_output=True, text=True, timeout=900)
        st = json.load(open(out)) if os.path.getsize(out) else {}
    except Exception as ex:  # noqa: BLE001
        res['counters']['suite_replay_failed'] = 1
        res['notes'] = {'suite_replay': [repr(ex)[:200]]}
        return res
    finally:
        os.unlink(out)
    res['evals'] = st.get('calls', 0)
    res['counters'] = {'suite_calls_shadowed': st.get('calls', 0), 'suite_select_vs_match': st.get('select_vs_match', 0),
                       'suite_exit_status': st.get('exitstatus', r.returncode)}
    for v in st.get('violations', [])[:6]:
        res['counters']['VIOL'] = res['counters'].get('VIOL', 0) + 1
        res['viol'].append({'what': 'suite replay: monitor %s fired for pattern %r %s' % (v['monitor'], v.get('pattern'), v.get('markup', '')[:200]),
                            'selector': v.get('pattern'), 'suite': True, 'class': sig('suite', v['monitor'])})
    res['samples'] = [{'suite_replay': {k: v for k, v in st.items() if k != 'violations'}}]
    return res


def gen_doc(rng):
    r = rng.random()
    if r < .6:
        tops = htmlgen.gen_form_doc(rng)
        how = rng.choice(['api', 'api', 'html.parser', 'html.parser', 'lxml', 'html5lib'])
    elif r < .8:
        root, _ = trees.gen_tree(rng, max_nodes=20)
        tops, _m = trees.wrap(rng, root)
        how = rng.choice(trees.MATERIALISERS)
    else:
        # XML: class attributes stay plain strings (with irregular whitespace)
        root, _ = trees.gen_tree(rng, max_nodes=14)

        def strcls(e):
            if 'class' in e.attrs:
                e.attrs['class'] = rng.choice(['x  y', ' x', 'y\tx ', 'x'])
            for k in e.kids:
                if isinstance(k, E):
                    strcls(k)
        strcls(root)
        tops = [root]
        how = rng.choice(['xml', 'api-xml', 'api'])
        if how != 'api':
            def nsify(e):
                r2 = rng.random()
                if r2 < .35:
                    e.prefix, e.ns = 'p1', NS1
                elif r2 < .5:
                    e.prefix, e.ns = 'p2', NS2
                if rng.random() < .2:
                    e.attrs['checked'] = ''
                for k in e.kids:
                    if isinstance(k, E):
                        nsify(k)
            nsify(root)
            root.nsdecl = {'p1': NS1, 'p2': NS2}
    return tops, how


def els_of(soup):
    import bs4
    return [e for e in soup.descendants if isinstance(e, bs4.Tag)]


def do_op(sv, op, sel, tgt, compiled, nsmap=None, state=None):
    """state (history side only): {'live': dict, 'kept': {}} - the caller keeps ONE dict object for its namespaces, refills it
    before each query, and keeps the compiled objects it made earlier; the pristine twin passes a fresh dict each time."""
    if nsmap is not None:
        if state is not None:
            live, kept = state['live'], state['kept']
            key = (sel, tuple(sorted(nsmap.items())))
            if compiled and key in kept:
                c = kept[key]              # compiled earlier, when `live` held exactly this map; `live` was refilled since
                state['reused'] = state.get('reused', 0) + 1
            else:
                live.clear()
                live.update(nsmap)
                nsmap = live
                c = sv.compile(sel, live)
                if compiled:
                    kept[key] = c
        else:
            c = sv.compile(sel, nsmap)
        f = {'select': c.select, 'iselect': lambda t: list(c.iselect(t)), 'select_one': c.select_one, 'match': c.match,
             'filter': c.filter, 'closest': c.closest}[op] if compiled else None
        if f is not None:
            return f(tgt)
        g = {'select': sv.select, 'iselect': lambda s, t, n: list(sv.iselect(s, t, n)), 'select_one': sv.select_one,
             'match': sv.match, 'filter': sv.filter, 'closest': sv.closest}[op]
        return g(sel, tgt, nsmap)
    if compiled:
        c = sv.compile(sel)
        f = {'select': c.select, 'iselect': lambda t: list(c.iselect(t)), 'select_one': c.select_one, 'match': c.match,
             'filter': c.filter, 'closest': c.closest}[op]
        return f(tgt)
    f = {'select': sv.select, 'iselect': lambda s, t: list(sv.iselect(s, t)), 'select_one': sv.select_one,
         'match': sv.match, 'filter': sv.filter, 'closest': sv.closest}[op]
    return f(sel, tgt)


def apply_edit(soup, ed):
    """A caller's own change to the document between two queries (the same edit is applied to the pristine twin)."""
    import bs4
    action, idx, a, b = ed[:4]
    among = ed[4] if len(ed) > 4 else None
    els = els_of(soup)
    if among:
        els = [x for x in els if x.name == among] or els
    if not els:
        return
    e = els[idx % len(els)]
    if action == 'attr':
        e[a] = b
    elif action == 'delattr':
        if a in e.attrs:
            del e[a]
    elif action == 'insert':
        new = soup.new_tag(a)
        for k, v in (b or {}).items():
            new[k] = v
        e.insert(0, new)
    elif action == 'remove':
        if e.parent is not None and not isinstance(e.parent, bs4.BeautifulSoup) and len(els) > 3:
            e.extract()
    elif action == 'text':
        e.append(bs4.NavigableString(a))


def gen_edit(rng):
    r = rng.random()
    idx = rng.randrange(10 ** 6)
    if r < .35:
        a = rng.choice(['checked', 'lang', 'dir', 'type', 'disabled', 'name', 'class', 'min', 'value', 'placeholder', 'required'])
        b = {'lang': rng.choice(['en', 'de', '']), 'dir': rng.choice(['rtl', 'ltr', 'auto']), 'type': rng.choice(['submit', 'radio', 'checkbox', 'number', 'text']),
             'name': rng.choice(['r', 'q']), 'class': rng.choice(['x', 'y x']), 'min': '3', 'value': rng.choice(['1', '9'])}.get(a, '')
        return ('attr', idx, a, b, rng.choice([None, None, 'input', 'html', 'form']))
    if r < .5:
        return ('delattr', idx, rng.choice(['checked', 'lang', 'dir', 'type', 'disabled', 'name', 'class', 'href', 'required']), None,
                rng.choice([None, 'input', 'html', 'meta']))
    if r < .8:
        tag, attrs, among = rng.choice([('input', {'type': 'submit'}, 'form'), ('button', {'type': 'submit'}, 'form'),
                                        ('input', {'type': 'radio', 'name': 'r', 'checked': ''}, 'form'), ('input', {'type': 'radio', 'name': 'q', 'checked': ''}, None),
                                        ('meta', {'http-equiv': 'content-language', 'content': 'de'}, 'head'), ('form', {}, None), ('p', {'lang': 'en'}, None),
                                        ('span', {}, None), ('input', {'type': 'submit'}, None)])
        return ('insert', idx, tag, attrs, among)
    if r < .9:
        return ('remove', idx, None, None)
    return ('text', idx, rng.choice(['אב', 'abc', ' ']), None)


def norm(r, index):
    """Result as indices (None / bool / list of element indices)."""
    if r is None or isinstance(r, bool):
        return r
    if isinstance(r, list):
        return [index.get(id(x), -1) for x in r]
    return index.get(id(r), -1)


def run_history(sv, rng, tops, how, steps, trap, stats):
    """Returns list of violation dicts (possibly empty)."""
    import bs4
    out = []
    soup = trees.materialise(tops, how)
    els = els_of(soup)
    index = {id(e): i for i, e in enumerate(els)}
    index[id(soup)] = 'doc'
    edits_done = []
    state = {'live': {}, 'kept': {}}
    for si, step in enumerate(steps):
        if step[0] == 'edit':
            apply_edit(soup, step[1])
            edits_done.append(step[1])
            els = els_of(soup)
            index = {id(e): i for i, e in enumerate(els)}
            index[id(soup)] = 'doc'
            stats['edits'] = stats.get('edits', 0) + 1
            continue
        op, sel, ti, compiled = step[:4]
        nsmap = step[4] if len(step) > 4 else None
        tgt = soup if ti is None or not els else els[ti % len(els)]
        if op in ('match', 'closest') and tgt is soup and els:
            tgt = els[0]
        before = monitors.tree_fingerprint(soup)
        ser_before = soup.decode()
        trap.events.clear()
        trap.armed = True
        st, r = monitors.guarded_call(do_op, sv, op, sel, tgt, compiled, nsmap, state)
        trap.armed = False
        stats['calls'] = stats.get('calls', 0) + 1
        if st != 'ok':
            stats['raised'] = stats.get('raised', 0) + 1      # exceptions are C08's business; history continues
            continue
        after = monitors.tree_fingerprint(soup)
        if trap.events or after != before or soup.decode() != ser_before:
            diff = ''
            for a, b in zip(before, after):
                if a != b:
                    diff = 'node %r -> %r' % (a[2:8], b[2:8])
                    break
            out.append({'what': 'tree mutated by %s(%r): mutators called %s; first difference %s' % (
                op, sel, sorted(set(trap.events)), diff[:300]), 'monitor': 'c', 'step': si,
                'class': sig('mutation', sorted(set(trap.events)), diff[:40])})
            return out
        got = norm(r, index)
        if got not in (None, False, []):
            stats['nontrivial'] = stats.get('nontrivial', 0) + 1
        # (a) pristine twin
        sv.purge()
        twin = trees.materialise(tops, how)
        for ed in edits_done:
            apply_edit(twin, ed)
        tels = els_of(twin)
        tindex = {id(e): i for i, e in enumerate(tels)}
        tindex[id(twin)] = 'doc'
        ttgt = twin if tgt is soup else tels[index[id(tgt)]]
        st2, r2 = monitors.guarded_call(do_op, sv, op, sel, ttgt, compiled, nsmap)
        if st2 == 'ok':
            want = norm(r2, tindex)
            stats['twin_compared'] = stats.get('twin_compared', 0) + 1
            if want != got:
                out.append({'what': 'history dependence: step %d %s(%r) on element %s gave %r, the same call on a pristine '
                                    'twin gives %r' % (si, op, sel, index[id(tgt)], got, want), 'monitor': 'a', 'step': si,
                            'class': sig('twin', op, sel)})
                return out
        # (b) select membership == per-element match (scope-free selectors only)
        if op in ('select', 'iselect') and ':scope' not in sel and '&' not in sel:
            members = set(got)
            pool = els_of(tgt)
            for e in pool:
                st3, m = monitors.guarded_call(sv.match, sel, e, nsmap)
                if st3 != 'ok':
                    break
                stats['match_compared'] = stats.get('match_compared', 0) + 1
                if m != (index[id(e)] in members):
                    out.append({'what': 'select(%r) %s element %d <%s> but match() alone says %r' % (
                        sel, 'contains' if index[id(e)] in members else 'omits', index[id(e)], e.name, m),
                        'monitor': 'b', 'step': si, 'class': sig('select-vs-match', sel)})
                    return out
    stats['kept_compiled_reused'] = stats.get('kept_compiled_reused', 0) + state.get('reused', 0)
    return out


THEMES = {
    'default': ([':default', 'form :default', ':has(:default)', 'input:default', ':not(:default)'],
                [('insert', 'input', {'type': 'submit'}, 'form'), ('insert', 'button', {'type': 'submit'}, 'form'), ('delattr', 'type', None, 'input'),
                 ('attr', 'type', 'submit', 'input'), ('remove', None, None, 'input'), ('insert', 'form', {}, 'form'), ('remove', None, None, 'button')]),
    'indeterminate': ([':indeterminate', 'input:indeterminate', ':not(:indeterminate)', ':checked', ':default'],
                      [('insert', 'input', {'type': 'radio', 'name': 'r', 'checked': ''}, 'form'), ('insert', 'input', {'type': 'radio', 'name': 'q', 'checked': ''}, None),
                       ('attr', 'checked', '', 'input'), ('delattr', 'checked', None, 'input'), ('attr', 'name', 'r', 'input'), ('attr', 'type', 'radio', 'input'),
                       ('remove', None, None, 'input')]),
    'lang': ([':lang(en)', ':lang("")', ':lang(de)', ':lang("*")', ':not(:lang(en))', ':root:lang(de)'],
             [('attr', 'lang', 'en', 'html'), ('attr', 'lang', '', None), ('attr', 'lang', 'de', None), ('delattr', 'lang', None, 'html'), ('delattr', 'lang', None, None),
              ('insert', 'meta', {'http-equiv': 'content-language', 'content': 'de'}, 'head'), ('remove', None, None, 'meta'), ('delattr', 'content', None, 'meta'),
              ('attr', 'content', 'en', 'meta')]),
    'dir': ([':dir(ltr)', ':dir(rtl)', ':not(:dir(ltr))'],
            [('attr', 'dir', 'rtl', None), ('attr', 'dir', 'auto', None), ('attr', 'dir', 'ltr', 'html'), ('delattr', 'dir', None, None), ('delattr', 'dir', None, 'html'),
             ('text', 'אב', None, None), ('text', 'abc', None, None)]),
    'range': ([':in-range', ':out-of-range', ':not(:in-range)', ':placeholder-shown', ':read-write', ':enabled', ':disabled'],
              [('attr', 'min', '3', 'input'), ('attr', 'max', '2020-06', 'input'), ('attr', 'value', '9', 'input'), ('attr', 'type', 'number', 'input'),
               ('attr', 'type', 'month', 'input'), ('delattr', 'type', None, 'input'), ('attr', 'disabled', '', 'fieldset'), ('delattr', 'disabled', None, None),
               ('attr', 'placeholder', 'p', 'input'), ('attr', 'readonly', '', 'input')]),
}


def gen_themed_steps(rng):
    """Histories that keep asking about one stateful pseudo-class while the caller edits exactly what it depends on."""
    sels_, edits = THEMES[rng.choice(sorted(THEMES))]
    steps = []
    for _ in range(rng.randint(6, 20)):
        if steps and rng.random() < .4:
            a, x, y, among = rng.choice(edits)
            steps.append(('edit', (a, rng.randrange(10 ** 6), x, y, among)))
        else:
            op = 'select' if rng.random() < .7 else rng.choice(OPS)
            steps.append((op, rng.choice(sels_), None if rng.random() < .7 else rng.randrange(10 ** 6), rng.random() < .3, None))
    return steps


def gen_steps(rng, n_els, ns=False, edits=True):
    cfg = sels.Cfg(p_id=.1, p_class=.3, p_attr=.25, p_struct=.2, p_more=.3)
    steps = []
    for _ in range(rng.randint(6, 30)):
        sel = rng.choice(MEMO) if rng.random() < .7 else sels.render(sels.gen_list(rng, 1, cfg))
        if rng.random() < .15:
            sel = sel + ', ' + rng.choice(MEMO)
        nsmap = None
        if ns and rng.random() < .6:
            sel = rng.choice(NS_MEMO)
            nsmap = dict(rng.choice(NSMAPS))
        steps.append((rng.choice(OPS), sel, None if rng.random() < .5 else rng.randrange(10 ** 6), rng.random() < .4, nsmap))
        if edits and rng.random() < .15:
            steps.append(('edit', gen_edit(rng)))
    return steps


class Injected(BaseException):
    """A fault that is not an Exception subclass (what a signal handler or a tracing tool of the caller may raise)."""


CANARIES = ['iframe *', 'iframe p, iframe input', ':is(iframe, form) :is(p, input, span, div)', 'html *', ':root', ':root > * > *', ':lang(en)', ':lang("")',
            ':default', ':indeterminate', ':checked', ':dir(ltr)', ':dir(rtl)', '*|*', ':not(iframe *)', ':has(> iframe p)', 'body :not(:has(*))',
            ':-soup-contains(t)', ':in-range, :out-of-range', ':enabled', ':link', ':empty', ':nth-child(odd of :not(iframe *))', 'form *', ':required']
FAULTS = [KeyboardInterrupt, MemoryError, RecursionError, Injected, RuntimeError]
BROKEN = [', :bogus(', ', p >', ', [a=', ', :nth-child(2n+)', ', :is(', ', p:lang()', ', ::', ', :--nope']


def fault_op(sv, rng, op, sel, tgt, compiled, nsmap, at, exc, stats):
    """One public call with a fault injected at the at-th line executed inside soupsieve (lazy iselect is consumed
    step by step so that the fault may also land between two `next()` calls' worth of work).  Returns the failpoint."""
    fp = monitors.Failpoint(at, exc)
    with monitors.cpu_budget(30.0):
        try:
            with fp:
                if op == 'iselect':
                    it = (sv.compile(sel, nsmap) if compiled else None)
                    it = it.iselect(tgt) if compiled else sv.iselect(sel, tgt, nsmap)
                    k = rng.choice([0, 1, 2, 10 ** 6])
                    for _i, _e in enumerate(it):
                        if _i >= k:
                            break
                    if rng.random() < .5:
                        it.close()
                else:
                    do_op(sv, op, sel, tgt, compiled, nsmap)
        except exc:
            stats['faults_raised'] = stats.get('faults_raised', 0) + 1
        except Exception:  # noqa: BLE001 - a selector the library rejects, or the fault re-wrapped: C08's business
            stats['fault_other_exception'] = stats.get('fault_other_exception', 0) + 1
    return fp


def run_fault_history(sv, rng, tops, how, calls, stats):
    """Faults at a point: a call that is interrupted half way (an asynchronous exception at any line inside the
    library, an early-closed iterator, a caller's iterable that raises, a pattern with a syntax error in a later
    alternative) is just another piece of history: every later, ordinary call must answer as on the pristine document
    and the tree must be what it was."""
    import bs4
    out = []
    soup = trees.materialise(tops, how)
    els = els_of(soup)
    if not els:
        return out
    index = {id(e): i for i, e in enumerate(els)}
    index[id(soup)] = 'doc'

    def target(ti, op):
        tgt = soup if ti is None else els[ti % len(els)]
        if op in ('match', 'closest') and tgt is soup:
            tgt = els[0]
        return tgt

    def ask_all(tag):
        res = []
        for (op, sel, ti, compiled, nsmap) in calls:
            st, r = monitors.guarded_call(do_op, sv, op, sel, target(ti, op), compiled, nsmap)
            res.append((st, norm(r, index) if st == 'ok' else type(r).__name__))
        return res

    def compiled_all():
        res = []
        for (op, sel, ti, compiled, nsmap) in calls:
            st, c = monitors.guarded_call(sv.compile, sel, nsmap)
            res.append((st, c if st == 'ok' else type(c).__name__))
        return res

    sv.purge()
    base = ask_all('base')
    base_c = compiled_all()
    if any(st == 'budget' for st, _ in base):
        return out
    stats['nontrivial'] = stats.get('nontrivial', 0) + sum(1 for st, r in base if st == 'ok' and r not in (None, False, []))
    for rnd in range(rng.randint(3, 8)):
        i = rng.randrange(len(calls))
        op, sel, ti, compiled, nsmap = calls[i]
        tgt = target(ti, op)
        kind = rng.choice(['line', 'line', 'line', 'line', 'syntax', 'raising-iterable', 'purge-line'])
        before = monitors.tree_fingerprint(soup)
        ser_before = soup.decode()
        desc = None
        if kind in ('line', 'purge-line'):
            if kind == 'purge-line':
                sv.purge()                    # the interrupted call is also the one that has to compile
            probe = fault_op(sv, random.Random(0), op, sel, tgt, compiled, nsmap, None, Injected, {})
            if kind == 'purge-line':
                sv.purge()
            if probe.n == 0:
                continue
            at = rng.randint(1, probe.n)
            exc = rng.choice(FAULTS)
            fp = fault_op(sv, random.Random(0), op, sel, tgt, compiled, nsmap, at, exc, stats)
            stats['faults_injected'] = stats.get('faults_injected', 0) + (1 if fp.fired else 0)
            if fp.fired:
                stats['site:' + fp.fired.rsplit(':', 1)[0]] = stats.get('site:' + fp.fired.rsplit(':', 1)[0], 0) + 1
            desc = '%s(%r) interrupted by %s at %s (line event %d of %d)' % (op, sel, exc.__name__, fp.fired, at, probe.n)
        elif kind == 'syntax':
            bad = sel + rng.choice(BROKEN)
            st, r = monitors.guarded_call(do_op, sv, op, bad, tgt, compiled, nsmap)
            stats['syntax_faults'] = stats.get('syntax_faults', 0) + (1 if st == 'raise' else 0)
            desc = '%s(%r) rejected (%s)' % (op, bad, type(r).__name__ if st == 'raise' else st)
        else:
            k = rng.randint(0, 3)

            def gen():
                for j, e in enumerate(els):
                    if j >= k:
                        raise Injected('caller iterable')
                    yield e
            try:
                with monitors.cpu_budget(30.0):
                    (sv.compile(sel, nsmap).filter if compiled else (lambda it: sv.filter(sel, it, nsmap)))(gen())
            except Injected:
                stats['iterable_faults'] = stats.get('iterable_faults', 0) + 1
            except Exception:  # noqa: BLE001
                pass
            desc = 'filter(%r, <iterable raising after %d items>)' % (sel, k)
        after = monitors.tree_fingerprint(soup)
        if after != before or soup.decode() != ser_before:
            out.append({'what': 'tree left changed by an interrupted call: ' + desc, 'monitor': 'fault-mutation',
                        'class': sig('fault-mutation', op), 'fault': desc})
            return out
        now = ask_all('after')
        stats['fault_compared'] = stats.get('fault_compared', 0) + len(now)
        for j, (b, n_) in enumerate(zip(base, now)):
            if b != n_ and 'budget' not in (b[0], n_[0]):
                out.append({'what': 'after %s, the ordinary call %s(%r) answers %r; before the fault (pristine) it answered %r' % (
                    desc, calls[j][0], calls[j][1], n_, b), 'monitor': 'fault', 'class': sig('fault', kind, calls[j][0]), 'fault': desc,
                    'selector': calls[j][1]})
                return out
        now_c = compiled_all()
        for j, (b, n_) in enumerate(zip(base_c, now_c)):
            same = b[0] == n_[0] and (b[1] == n_[1] if b[0] != 'ok' else (b[1] == n_[1] and hash(b[1]) == hash(n_[1])))
            if not same and 'budget' not in (b[0], n_[0]):
                out.append({'what': 'after %s, compile(%r) is not equal to what it was before the fault' % (desc, calls[j][1]),
                            'monitor': 'fault-compile', 'class': sig('fault-compile', kind), 'fault': desc, 'selector': calls[j][1]})
                return out
    return out


def run_fault_unit(u):
    import soupsieve as sv
    rng = random.Random(u['seed'])
    res = {'evals': 0, 'sigs': [], 'viol': [], 'samples': [], 'counters': {}}
    cn = res['counters']
    sigs = set()
    for _ in range(u['n']):
        tops, how = gen_doc(rng)
        steps = [st for st in (gen_themed_steps(rng) if rng.random() < .3 else gen_steps(rng, 0, ns=how in ('xml', 'api-xml'), edits=False))
                 if st[0] != 'edit'][:10]
        calls = [(st[0], st[1], st[2], st[3], st[4] if len(st) > 4 else None) for st in steps]
        # canaries: whole-document questions that are sensitive to anything a call could leave behind in shared state
        # (iframe crossing, the caller's prefix map, the per-document memo tables, the text pseudo-classes)
        calls += [('select', c, None, rng.random() < .5, None) for c in CANARIES]
        if how in ('xml', 'api-xml'):
            calls += [('select', c, None, rng.random() < .5, dict(NSMAP)) for c in NS_MEMO]
        if not calls:
            continue
        stats = {}
        state = rng.getstate()
        viol = run_fault_history(sv, rng, tops, how, calls, stats)
        for k, v in stats.items():
            cn[k] = cn.get(k, 0) + v
        cn['fault_histories'] = cn.get('fault_histories', 0) + 1
        res['evals'] += stats.get('fault_compared', 0)
        for c in calls[:4]:
            sigs.add(sig('fault', c[0], c[1], how))
        if viol:
            cn['VIOL'] = cn.get('VIOL', 0) + 1
            if len(res['viol']) < 4:
                v = viol[0]
                v.update({'tree': [t.to_json() for t in tops], 'how': how, 'fault_calls': [list(c) for c in calls],
                          'rng_state': repr(state), 'unit_seed': u['seed'],
                          'markup': trees.describe(trees.materialise(tops, how), 500)})
                res['viol'].append(v)
    res['sigs'] = list(sigs)
    return res


def run_unit(u):
    if u.get('kind') == 'suite':
        return suite_replay()
    if u.get('kind') == 'fault':
        return run_fault_unit(u)
    import soupsieve as sv
    rng = random.Random(u['seed'])
    res = {'evals': 0, 'sigs': [], 'viol': [], 'samples': [], 'counters': {}}
    cn = res['counters']
    trap = monitors.MutatorTrap()
    trap.install()
    sigs = set()
    try:
        for _ in range(u['n']):
            tops, how = gen_doc(rng)
            steps = gen_themed_steps(rng) if rng.random() < .35 else gen_steps(rng, 0, ns=how in ('xml', 'api-xml'))
            stats = {}
            viol = run_history(sv, rng, tops, how, steps, trap, stats)
            for k, v in stats.items():
                cn[k] = cn.get(k, 0) + v
            cn['histories'] = cn.get('histories', 0) + 1
            cn['how:' + how] = cn.get('how:' + how, 0) + 1
            res['evals'] += stats.get('calls', 0)
            for stp in steps[:6]:
                sigs.add(sig(stp[0], repr(stp[1]), len(tops), how))
            if viol:
                cn['VIOL'] = cn.get('VIOL', 0) + 1
                if len(res['viol']) < 6:
                    v = viol[0]
                    # shrink the history: drop steps while the same monitor still fires
                    k = v['step']
                    hist = steps[:k + 1]
                    i = 0
                    while i < len(hist) - 1 and len(hist) > 1:
                        cand = hist[:i] + hist[i + 1:]
                        vv = run_history(sv, rng, tops, how, cand, trap, {})
                        if vv and vv[0]['monitor'] == v['monitor']:
                            hist = cand
                        else:
                            i += 1
                    vv = run_history(sv, rng, tops, how, hist, trap, {})
                    if vv:
                        v = vv[0]
                    v.update({'tree': [t.to_json() for t in tops], 'how': how, 'steps': [list(s) for s in hist],
                              'selector': str(hist[-1][1]), 'markup': trees.describe(trees.materialise(tops, how), 500)})
                    res['viol'].append(v)
            elif len(res['samples']) < 1:
                res['samples'].append({'how': how, 'history': [list(s) for s in steps[:8]],
                                       'markup': trees.describe(trees.materialise(tops, how), 240)})
    finally:
        trap.uninstall()
    res['sigs'] = list(sigs)
    return res


def replay(w):
    import soupsieve as sv
    if w.get('suite'):
        r = suite_replay()
        return dict(w, status_now=r['viol'][0]['what']) if r['viol'] else None
    tops = cases.rebuild(w)
    trap = monitors.MutatorTrap()
    trap.install()
    try:
        v = run_history(sv, random.Random(0), tops, w['how'], [(s[0], tuple(s[1])) if s[0] == 'edit' else tuple(s) for s in w['steps']], trap, {})
    finally:
        trap.uninstall()
    if not v:
        return None
    return dict(w, status_now=v[0]['what'])


def inconclusive(cn, tier):
    out = []
    need = 20000 if tier == 'quick' else 500000
    for k in ('twin_compared', 'match_compared'):
        if cn.get(k, 0) < need:
            out.append('%s only %d (need %d)' % (k, cn.get(k, 0), need))
    if cn.get('nontrivial', 0) < need // 10:
        out.append('only %d calls with a non-empty result' % cn.get('nontrivial', 0))
    return out
