"""C20 - diagnostics point at the right place and always terminate.

Monitors / oracles:
 (a) position formula: for SelectorSyntaxError(msg, pattern, k) constructed for *every* k in 0..len(pattern), and for every
     error raised by compile (offset captured by a passive probe on util.get_pattern_context): line = 1 + number of line
     breaks before k, column = k - line start + 1 (for \\n, \\r\\n and \\r alike, k == len(pattern) included), context =
     the pattern's lines with a caret under that column;
 (b) DEBUG equivalence: compile(p, flags=DEBUG) has the same selector structure, raises the same error at the same
     place and selects the same elements as compile(p) (stdout captured);
 (c) printer budget: pretty(x) returns within a CPU budget and equals repr(x) up to whitespace outside string literals.
"""
import contextlib
import io
import random
import re

from vlib import monitors, sels
from vlib.runner import sig

ID = 'C20'
LEVEL = 'exploration'
ANCHORS = ['get_pattern_context', 'SelectorSyntaxError.__init__', 'pretty', 'CSSParser.selector_iter', 'CSSParser.parse_selectors']
RULE = ('patterns with every mix of \\n, \\r\\n, \\r, empty lines and a break at the very end: every offset 0..len(pattern) through the '
        'exception constructor; malformed selectors (truncations and mutations of valid multi-line selectors, errors at the end '
        'included) through compile(); valid and invalid selectors of the whole grammar with namespaces/custom maps for the DEBUG '
        'comparison on two documents; compiled selectors of every grammar (negative An+B terms, attribute patterns with regex '
        'flags, nested lists, namespaces, custom maps) for the printer.  Non-trivial = an offset on a line other than the first or '
        'at a line end / a raised error / a structure with nested lists; distinct = distinct (pattern, offset) or patterns.')
ASSUMPTIONS = [
    'an offset that points between the CR and the LF of a CRLF pair is unspecified and not compared',
    'the context shows each pattern line once, the marked line prefixed with "--> " and the others with four blanks when the '
    'pattern has several lines, followed by one caret line under the marked line',
    'pretty-printer equality is modulo whitespace outside quoted string literals',
]

BREAKS = ['\n', '\r\n', '\r']
PIECES = ['a', 'div > p', '.x', '#i', '[a=b]', ':is(a, b)', ':nth-child(2n+1)', ',', '>', '', ' ', '/* c */', ':not(', ')', '[', '"', 'a,', '::x', '@P',
          ':lang(en)', ':--c', 'é', '\t', '\U0001f600', ':has(> a)', '*|*', 'a|b']


def formula(pattern, k):
    """(line, col, [lines]) or None when k is inside a CRLF pair."""
    lines = []
    starts = []
    i = 0
    start = 0
    n = len(pattern)
    while i < n:
        c = pattern[i]
        if c == '\r' and i + 1 < n and pattern[i + 1] == '\n':
            lines.append(pattern[start:i])
            starts.append((start, i, i + 2))
            i += 2
            start = i
        elif c in '\r\n':
            lines.append(pattern[start:i])
            starts.append((start, i, i + 1))
            i += 1
            start = i
        else:
            i += 1
    lines.append(pattern[start:])
    starts.append((start, n, n))
    for ln, (s, e, nxt) in enumerate(starts):
        if s <= k <= e:
            return ln + 1, k - s + 1, lines
        if e < k < nxt:
            return None
    return None


def check_context(err_line, err_col, context, pattern, k):
    """Compare an error's (line, col, context) with the formula.  Returns a problem string or None."""
    f = formula(pattern, k)
    if f is None:
        return None
    line, col, lines = f
    if (err_line, err_col) != (line, col):
        return 'line/column (%r, %r), formula says (%d, %d)' % (err_line, err_col, line, col)
    if context is None:
        return 'no context'
    got = context.split('\n')
    multi = len(lines) > 1
    # context lines may themselves not contain line breaks any more; rebuild expectation
    exp = []
    for i, t in enumerate(lines):
        if multi:
            exp.append(('--> ' if i + 1 == line else '    ') + t)
        else:
            exp.append(t)
        if i + 1 == line:
            exp.append(' ' * ((4 if multi else 0) + col - 1) + '^')
    if got != exp:
        return 'context %r, expected %r' % (context, '\n'.join(exp))
    return None


def strip_ws_outside_strings(s):
    out = []
    for m in re.finditer(r'''("(?:\\.|[^"\\])*"|'(?:\\.|[^'\\])*')|([^"']+)|(.)''', s, re.S):
        if m.group(1):
            out.append(m.group(1))
        else:
            out.append(''.join((m.group(2) or m.group(3)).split()))
    return ''.join(out)


def _plan0(tier, seed):
    units = []
    q = tier == 'quick'
    for i in range(32 if q else 320):
        units.append({'kind': 'offsets', 'seed': seed * 9001 + i, 'n': 160 if q else 500})
    for i in range(32 if q else 320):
        units.append({'kind': 'raised', 'seed': seed * 9001 + 1000 + i, 'n': 900 if q else 3000})
    for i in range(16 if q else 160):
        units.append({'kind': 'debug', 'seed': seed * 9001 + 2000 + i, 'n': 250 if q else 900})
    for i in range(16 if q else 160):
        units.append({'kind': 'pretty', 'seed': seed * 9001 + 3000 + i, 'n': 200 if q else 700})
    return units


def plan(tier, seed):
    """... plus the shared 'faultcompile' units: a compile with a custom-selector table is cut short (warning turned into an error,
    deep caller stack, asynchronous exception at a random line inside the library, DEBUG output stream that breaks, syntax error in
    a definition); the next ordinary compile with equal arguments must have the outcome of a fresh parse (vlib/faultcompile.py)."""
    units = _plan0(tier, seed)
    fthemes = ['diag', 'text', 'generic']
    units += [{'kind': 'faultcompile', 'theme': fthemes[i % len(fthemes)], 'seed': seed * 32749 + i, 'n': 150 if tier == 'quick' else 500}
              for i in range(12 if tier == 'quick' else 120)]
    return units


def gen_multiline(rng):
    parts = []
    for _ in range(rng.randint(1, 6)):
        parts.append(rng.choice(PIECES))
        if rng.random() < .7:
            parts.append(rng.choice(BREAKS) * rng.choice([1, 1, 2]))
    if rng.random() < .3:
        parts.append(rng.choice(BREAKS))
    return ''.join(parts)


def run_unit(u):
    import warnings
    import bs4
    import soupsieve as sv
    from soupsieve import util as su
    warnings.simplefilter('ignore')
    rng = random.Random(u['seed'])
    res = {'evals': 0, 'sigs': [], 'viol': [], 'samples': [], 'counters': {}}
    cn = res['counters']
    sigs = set()

    def bump(k, n=1):
        cn[k] = cn.get(k, 0) + n

    def viol(what, pattern, cls, **kw):
        bump('VIOL')
        if len(res['viol']) < 8:
            res['viol'].append(dict({'what': what, 'selector': pattern, 'class': sig(cls)}, **kw))

    if u['kind'] == 'offsets':
        for _ in range(u['n']):
            p = gen_multiline(rng)
            for k in range(0, len(p) + 1):
                st, e = monitors.guarded_call(sv.SelectorSyntaxError, 'msg', p, k, budget=5.0)
                res['evals'] += 1
                bump('constructed')
                if st != 'ok':
                    viol('SelectorSyntaxError(msg, %s, %d) could not be constructed: %r' % (ascii(p), k, e), p, 'construct', kind='offset', offset=k)
                    continue
                f = formula(p, k)
                if f is None:
                    bump('unspecified')
                    continue
                why = check_context(e.line, e.col, e.context, p, k)
                if why:
                    viol('SelectorSyntaxError(msg, %s, %d): %s' % (ascii(p), k, why), p,
                         ('offset', why.split(' ')[0], k == len(p), f[0] > 1, len(f[2]) > 1), kind='offset', offset=k)
                elif f[0] > 1 or k == len(p):
                    bump('nontrivial')
                    if len(sigs) < 40000:
                        sigs.add(sig(p, k))
                if 'line %d' % f[0] not in str(e) and len(f[2]) > 0:
                    viol('message of SelectorSyntaxError(msg, %s, %d) does not name line %d' % (ascii(p), k, f[0]), p, 'message-line', kind='offset', offset=k)
        res['samples'].append({'pattern': ascii(p), 'offsets_checked': len(p) + 1})
    elif u['kind'] == 'raised':
        captured = []
        orig = su.get_pattern_context
        probe_ok = True

        def probe(pattern, index):
            r = orig(pattern, index)
            captured.append((pattern, index))
            return r
        try:
            su.get_pattern_context = probe
        except Exception:  # noqa: BLE001
            probe_ok = False
        from props import C06
        try:
            valid = [sels.render(sels.gen_list(rng, 2)) for _ in range(20)] + C06.TOKEN_SEEDS
            for _ in range(u['n']):
                base = rng.choice(valid)
                # make it multi-line at the places where whitespace is allowed, then damage it
                p = base.replace(', ', ',' + rng.choice(BREAKS) + '  ').replace(' > ', rng.choice(BREAKS) + '> ')
                r = rng.random()
                if r < .4:
                    p = p[:rng.randrange(len(p) + 1)]
                elif r < .7:
                    i = rng.randrange(len(p) + 1)
                    p = p[:i] + rng.choice(['(', ')', '[', ']', ',', '>', '!', ':is(', ':nth-child(', '"', ':', '#', '.', rng.choice(BREAKS)]) + p[i:]
                if rng.random() < .4:
                    p = p + rng.choice(BREAKS) + rng.choice([':is(', ':not(a', '[a', 'a >', 'b,', ':has(', '"', ''])
                del captured[:]
                st, e = monitors.guarded_call(sv.compile, p, budget=10.0)
                res['evals'] += 1
                if st != 'raise' or not isinstance(e, sv.SelectorSyntaxError):
                    bump('no_error')
                    continue
                bump('raised_errors')
                if e.line is None:
                    bump('errors_without_position')
                    continue
                pp = p.replace('\x00', '�')
                ks = [idx for (pat, idx) in captured if pat == pp]
                if ks:
                    k = ks[-1]
                    bump('offset_captured_by_probe')
                    if not 0 <= k <= len(pp):
                        viol('compile(%s) reports offset %d outside the pattern (length %d)' % (ascii(p), k, len(pp)), p, 'offset-outside', kind='raised')
                        continue
                    why = check_context(e.line, e.col, e.context, pp, k)
                    if why:
                        viol('compile(%s) failed at offset %d: %s' % (ascii(p), k, why), p, ('raised', why.split(' ')[0], k == len(pp)), kind='raised')
                    elif formula(pp, k) and (formula(pp, k)[0] > 1 or k == len(pp)):
                        bump('nontrivial')
                        sigs.add(sig(p))
                else:
                    # probe absent: the position must at least identify some offset of this pattern, and the context must fit it
                    cands = [k for k in range(len(pp) + 1) if formula(pp, k) and formula(pp, k)[:2] == (e.line, e.col)]
                    if not cands:
                        viol('compile(%s): line %r column %r identifies no position of the pattern' % (ascii(p), e.line, e.col), p, 'no-position', kind='raised')
                    elif all(check_context(e.line, e.col, e.context, pp, k) for k in cands):
                        viol('compile(%s): context does not fit the reported position' % ascii(p), p, 'context-raised', kind='raised')
                m = re.search(r'position (\d+)', str(e).split('\n')[0])
                if m and ks and int(m.group(1)) != ks[-1] and 'combinator' not in str(e):
                    bump('message_position_differs_from_offset')
        finally:
            if probe_ok:
                su.get_pattern_context = orig
        res['samples'].append({'pattern': ascii(p), 'probe': probe_ok})
    elif u['kind'] == 'debug':
        from props import C05
        docs = [bs4.BeautifulSoup(C05.HTML, 'html.parser'), bs4.BeautifulSoup(C05.XML, 'xml')]
        cfg = sels.Cfg(extra=[(.4, lambda r, d: ('raw', r.choice(C05.RAW)))], tag_prefixes=[None, None, None, 'svg', 'x', '*'])
        for _ in range(u['n']):
            p = sels.render(sels.gen_list(rng, rng.choice([0, 1, 2]), cfg))
            if rng.random() < .25:
                p = p[:rng.randrange(len(p) + 1)] + rng.choice(['', ')', ',', '!'])
            ns = rng.choice(C05.NSMAPS)
            cu = rng.choice([None, C05.CUSTOM])
            if rng.random() < .15:
                # a prefixed compound evaluated after an HTML-only pseudo-class by the same matcher (whatever DEBUG prints on the
                # way must not change what the matcher keeps)
                pc_ = rng.choice([':link', ':checked', ':disabled', ':required', ':default', ':enabled', ':read-write'])
                p = rng.choice(['x|item:not(%s)', ':is(%s, x|item)', 'svg|*:not(%s), x|*', '*|*:not(%s) > x|item, svg|a', 'x|*:not(%s):not(.zz)']) % pc_
                ns = rng.choice([m for m in C05.NSMAPS if m and 'x' in m])

            lazy_edit = rng.random() < .3

            def run(flags):
                buf = io.StringIO()
                sv.purge()
                with contextlib.redirect_stdout(buf):
                    st, c = monitors.guarded_call(sv.compile, p, ns, flags, custom=cu, budget=10.0)
                    if st != 'ok':
                        return (st, type(c).__name__, str(c), getattr(c, 'line', None), getattr(c, 'col', None)), buf.getvalue()
                    out = []
                    for d in docs:
                        s2, r = monitors.guarded_call(c.select, d)
                        out.append([id(x) for x in r] if s2 == 'ok' else (s2, type(r).__name__))
                    if lazy_edit:
                        # iselect consumed lazily while the caller edits the tree between two items: with and without DEBUG the
                        # walk must see the same tree at the same moments
                        import copy as _copy

                        def lazy():
                            d3 = bs4.BeautifulSoup(C05.HTML, 'html.parser')
                            it = c.iselect(d3)
                            first = next(it, None)
                            seq = []
                            if first is not None:
                                seq.append((first.name, first.get('id')))
                                new = _copy.copy(first)
                                new['id'] = 'spawned'
                                (d3.body or d3).append(new)
                                nxt = first.find_next_sibling()
                                if nxt is not None:
                                    nxt.extract()
                                seq += [(x.name, x.get('id')) for x in it]
                            return seq
                        s3, r3 = monitors.guarded_call(lazy)
                        out.append(r3 if s3 == 'ok' else (s3, type(r3).__name__))
                return ('ok', c.selectors, out), buf.getvalue()
            a, out_a = run(0)
            b, out_b = run(sv.DEBUG)
            res['evals'] += 1
            bump('debug_pairs')
            if out_a:
                viol('compile(%s) without DEBUG printed %r' % (ascii(p), out_a[:80]), p, 'print-without-debug', kind='debug')
            if a != b:
                what = 'different structure' if a[0] == b[0] == 'ok' and a[1] != b[1] else ('different results' if a[0] == b[0] == 'ok' else 'different outcome %r vs %r' % (a[:2], b[:2]))
                viol('DEBUG changes the result of compile(%s, namespaces=%r, custom=%r): %s' % (ascii(p), ns, bool(cu), what), p, ('debug', what[:20]),
                     kind='debug', nsmap=ns, custom=bool(cu))
            elif a[0] == 'ok':
                bump('nontrivial')
                sigs.add(sig(p, ns is None, cu is None))
            if b[0] == 'ok' and '## PARSING' not in out_b:
                bump('debug_silent')
        res['samples'].append({'pattern': ascii(p), 'namespaces': ns, 'custom': bool(cu)})
    else:
        from soupsieve.pretty import pretty
        from props import C05
        cfg = sels.Cfg(extra=[(.5, lambda r, d: ('raw', r.choice(C05.RAW + [':nth-child(-n+3)', ':nth-last-child(-2n-1 of a)', '[a="x" i]', '[type=b]',
                                                                           '[a~="q r"]', ':nth-of-type(-5)'])))],
                       tag_prefixes=[None, None, 'svg', '*', ''], p_attr=.5)
        stuck = 0
        for _ in range(u['n']):
            if stuck >= 3:
                break                       # a printer that does not terminate costs a full budget per call: enough evidence
            p = sels.render(sels.gen_list(rng, rng.choice([0, 1, 2, 3]), cfg))
            if rng.random() < .2:
                # long values: repr() of a compiled pattern is cut after 200 characters (unterminated quote, many escapes)
                body = ''.join(rng.choice(['a', 'b.', '-', 'x-y.', ' ', "'", '"', '\\\\', 'é', '(', '$']) for _ in range(rng.choice([40, 90, 150])))
                p = p + '[title%s"%s"%s]' % (rng.choice(['=', '~=', '*=', '|=', '^=']), body.replace('"', '\\"'), rng.choice(['', ' i']))
            ns = rng.choice(C05.NSMAPS)
            cu = rng.choice([None, C05.CUSTOM])
            st, c = monitors.guarded_call(sv.compile, p, ns, custom=cu)
            if st != 'ok':
                bump('compile_failed')
                continue
            for obj, label in ((c.selectors, 'selectors'), (c, 'SoupSieve')):
                t0 = monitors.thread_cpu()
                st2, out = monitors.guarded_call(pretty, obj, budget=5.0)
                dt = monitors.thread_cpu() - t0
                res['evals'] += 1
                bump('pretty_calls')
                if st2 != 'ok':
                    stuck += st2 == 'budget'
                    viol('pretty(%s of compile(%s)) %s' % (label, ascii(p), 'did not finish within 5 CPU-seconds' if st2 == 'budget' else 'raised %r' % out),
                         p, ('pretty', st2), kind='pretty', nsmap=ns, custom=bool(cu))
                    continue
                r = repr(obj)
                if strip_ws_outside_strings(out) != strip_ws_outside_strings(r):
                    viol('pretty(%s of compile(%s)) differs from its repr beyond whitespace' % (label, ascii(p)), p, 'pretty-differs', kind='pretty',
                         nsmap=ns, custom=bool(cu))
                else:
                    if r.count('SelectorList(') > 2:
                        bump('nontrivial')
                        sigs.add(sig(p, label))
                    cn['pretty_max_cpu_ms'] = max(cn.get('pretty_max_cpu_ms', 0), int(dt * 1000))
        res['samples'].append({'pattern': ascii(p), 'pretty_chars': len(out) if st == 'ok' and st2 == 'ok' else None})
    res['sigs'] = list(sigs)
    return res


def replay(w):
    import warnings
    import soupsieve as sv
    warnings.simplefilter('ignore')
    p = w['selector']
    k = w.get('kind')
    if k == 'offset':
        e = sv.SelectorSyntaxError('msg', p, w['offset'])
        why = check_context(e.line, e.col, e.context, p, w['offset'])
        return dict(w, status_now=why) if why else None
    r = run_unit({'kind': {'raised': 'raised', 'debug': 'debug', 'pretty': 'pretty'}.get(k, 'raised'), 'seed': 1, 'n': 150})
    v = [x for x in r['viol'] if x['class'] == w.get('class')] or r['viol']
    return dict(w, status_now=v[0]['what']) if v else None


def inconclusive(cn, tier):
    out = []
    for k, need in (('constructed', 50000), ('raised_errors', 5000), ('debug_pairs', 2000), ('pretty_calls', 3000)):
        if cn.get(k, 0) < need:
            out.append('%s only %d (need %d)' % (k, cn.get(k, 0), need))
    if cn.get('raised_errors', 0) and cn.get('offset_captured_by_probe', 0) < cn.get('raised_errors', 0) // 2:
        out.append('passive offset probe attached to fewer than half of the raised errors')
    return out
