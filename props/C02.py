"""C02 - positional pseudo-classes implement An+B exactly.

Oracle: exists n >= 0 with A*n + B == pos, pos = 1-based index among *element* siblings (filtered by `of S` /
same type, reversed for -last-), evaluated on a snapshot of the same tree (vlib.refsel.nth_matches/position).
Workload: exhaustive square of (A, B) x four pseudo-classes x every type sequence over {a, b} up to a length
x four interleavings of non-element nodes x four placements, every (A, B) in several accepted spellings,
`of S` filters, keyword forms, plus sampled large coefficients under a CPU budget.
"""
import itertools
import random

from vlib import cases, monitors, refsel, sels, trees
from vlib.runner import sig
from vlib.trees import E, T

ID = 'C02'
LEVEL = 'exploration'
ANCHORS = ['CSSMatch.match_nth', 'CSSMatch.match_nth_tag_type', 'CSSParser.parse_pseudo_nth', '_FakeParent']
RULE = ('exhaustive over A,B in [-R,R] x {nth-child, nth-last-child, nth-of-type, nth-last-of-type} x every sequence '
        'of element types over {a,b} of length 1..L x 4 interleavings (none, blank text, comments, mixed incl. '
        'CDATA/PI) x 4 placements (inside a parent, document top level, inside a detached parent, parentless '
        'element), each (A,B) rendered in 2-6 accepted spellings, `of S` with 5 filters, the 6 keyword forms; '
        'quick R=3 L=5, thorough R=7 L=7; plus sampled |A|,|B| up to 10^30 under a CPU budget, and namespace-aware trees whose siblings share a qualified name across different namespaces.  Non-trivial = expected set neither empty '
        'nor all siblings; distinct = distinct (pseudo, A, B, of, sequence, interleaving, placement).')
ASSUMPTIONS = [
    'positions are counted among element siblings sharing the same parent object (the document object for top-level '
    'elements, the element alone when it has no parent)',
    'the accepted spellings are those of the CSS An+B microsyntax that soupsieve documents (even, odd, n, -n+3, 2n + 1, +5)',
]

KINDS = ['nth-child', 'nth-last-child', 'nth-of-type', 'nth-last-of-type']
OFS = {
    '.x': [[{'classes': ['x']}]],
    'a': [[{'tag': (None, 'a')}]],
    ':not(.x)': [[{'pseudos': [('not', [[{'classes': ['x']}]])]}]],
    'a, .x': [[{'tag': (None, 'a')}], [{'classes': ['x']}]],
    'div > .x': [[{'tag': (None, 'div')}, '>', {'classes': ['x']}]],
    # filters that depend on the sibling's own position (a memo of "matches S" must not confuse look-alike siblings)
    'a + a': [[{'tag': (None, 'a')}, '+', {'tag': (None, 'a')}]],
    ':not(:first-child)': [[{'pseudos': [('not', [[{'pseudos': [('first-child',)]}]])]}]],
    '.x ~ *': [[{'classes': ['x']}, '~', {'tag': (None, '*')}]],
}
COMBINED_OFS = {
    ':first-child ~ *': [[{'pseudos': [('first-child',)]}, '~', {'tag': (None, '*')}]],
    ':first-child ~ a': [[{'pseudos': [('first-child',)]}, '~', {'tag': (None, 'a')}]],
    'b + *': [[{'tag': (None, 'b')}, '+', {'tag': (None, '*')}]],
    ':not(:first-child):not(b)': [[{'pseudos': [('not', [[{'pseudos': [('first-child',)]}]]), ('not', [[{'tag': (None, 'b')}]])]}]],
}
COMBINED_SECOND = [('nth-of-type', 0, 2), ('nth-of-type', 2, 1), ('nth-last-of-type', 0, 1), ('nth-of-type', 1, 0), ('nth-last-of-type', 2, 0), ('nth-of-type', 0, 1)]
KEYWORDS = {'first-child': [('nth-child', 0, 1)], 'last-child': [('nth-last-child', 0, 1)],
            'only-child': [('nth-child', 0, 1), ('nth-last-child', 0, 1)],
            'first-of-type': [('nth-of-type', 0, 1)], 'last-of-type': [('nth-last-of-type', 0, 1)],
            'only-of-type': [('nth-of-type', 0, 1), ('nth-last-of-type', 0, 1)]}
INTER = ['none', 'blank', 'comment', 'mixed']
PLACE = ['parent', 'top', 'detached', 'orphan', 'iframe']


def spellings(a, b, rng=None):
    """Token lists for An+B in every spelling family the microsyntax allows (deterministic list)."""
    out = []
    N = ('kw', 'n')
    if a == 0:
        out.append([('num', str(b))])
        if b >= 0:
            out.append([('num', '+' + str(b))])
            out.append([('num', '0' + str(b))])
        else:
            out.append([('num', '-0' + str(-b))])
        out.append([('num', '0'), N, ('p', '-' if b < 0 else '+'), ('num', str(abs(b)))])
        out.append([('num', '-0'), N, ('o',), ('p', '-' if b < 0 else '+'), ('o',), ('num', str(abs(b)))])
        return out
    heads = []
    if a == 1:
        heads += [[N], [('num', '+'), N], [('num', '1'), N], [('num', '+01'), ('kw', 'N')]]
    elif a == -1:
        heads += [[('num', '-'), N], [('num', '-1'), N], [('num', '-'), ('kw', 'N')]]
    else:
        heads += [[('num', str(a)), N], [('num', ('-0' if a < 0 else '0') + str(abs(a))), N]]
        if a > 0:
            heads.append([('num', '+' + str(a)), ('kw', 'N')])
    sign = ('p', '-' if b < 0 else '+')
    tails = []
    if b == 0:
        tails += [[], [('p', '+'), ('num', '0')], [('o',), ('p', '-'), ('o',), ('num', '0')]]
    else:
        tails += [[sign, ('num', str(abs(b)))], [('o',), sign, ('o',), ('num', str(abs(b)))],
                  [sign, ('num', '0' + str(abs(b)))]]
    for i, h in enumerate(heads):
        for j, t in enumerate(tails):
            if (i + j) % 2 == 0 or i == 0 or j == 0:
                out.append(h + t)
    if a == 2 and b == 0:
        out += [[('kw', 'even')], [('kw', 'EVEN')]]
    if a == 2 and b == 1:
        out += [[('kw', 'odd')], [('kw', 'Odd')]]
    return out


WS_VARIANTS = ['', ' ', '\t', '\n ', ' /* c */ ']


def spell_name(kind, k):
    """The pseudo-class name in another accepted spelling: letter case, and CSS escapes (also of upper-case letters)."""
    k = k % 7
    if k < 3:
        return kind
    if k == 3:
        return kind.upper()
    i = {4: 4, 5: len(kind) - 1, 6: 0}[k]            # a letter of the name ('nth-Child', last letter, first letter)
    c = kind[i]
    if not c.isalpha():
        return kind
    esc = '\\%x ' % ord(c.upper() if k != 6 else c)
    return kind[:i] + esc + kind[i + 1:]


def render_nth(kind, toks, of_text, ws, name_spelling=0):
    s = ':' + spell_name(kind, name_spelling) + '(' + ws
    for t in toks:
        s += ws if t[0] == 'o' else t[1]
    if of_text is not None:
        s += ' ' + ws + 'of ' + ws + of_text
    return s + ws + ')'


def build(seq, inter, place, variant):
    """seq: string over 'ab'.  Returns (call target, snapshot top, idmap, list of sibling objects)."""
    import bs4
    from bs4 import BeautifulSoup, CData, Comment, NavigableString, ProcessingInstruction
    soup = BeautifulSoup('', 'html.parser')
    nodes = []
    sibs = []

    def filler(i):
        if inter == 'none':
            return []
        if inter == 'blank':
            return [NavigableString(['\n', ' ', '\n  '][(i + variant) % 3])]
        if inter == 'comment':
            return [Comment('c%d' % i)] if (i + variant) % 2 == 0 else [Comment('x'), Comment('y')]
        k = (i + variant) % 5
        return [[NavigableString('t')], [CData('d'), NavigableString(' ')], [ProcessingInstruction('pi x')],
                [Comment('c'), NavigableString('text'), Comment('d')], []][k]

    nodes += filler(0)
    for i, ch in enumerate(seq):
        # variant 1: names that differ only in ASCII case are the same type in an HTML tree (only the API can make them)
        nm_ = ch
        if variant == 1:
            # 'aé' and 'Aé' are one type (ASCII case), 'AÉ' is another (É/é is not an ASCII pair) - only the API makes such names
            nm_ = [ch + '\u00e9', (ch + '\u00e9').upper(), ch.upper() + '\u00e9'][i % 3]
        t = soup.new_tag(nm_)
        if variant == 2:
            t['class'] = ['x']                     # look-alike siblings: equal by value (no ids, same class)
        elif (i * 7 + variant) % 3 != 1:
            t['class'] = ['x']
        if variant != 2:
            t['id'] = 's%d' % i
        sibs.append(t)
        nodes.append(t)
        nodes += filler(i + 1)
    if place == 'orphan':
        return sibs[0], sibs[0], sibs[:1]
    if place == 'top':
        for n in nodes:
            soup.append(n)
        return soup, soup, sibs
    div = soup.new_tag('iframe' if place == 'iframe' else 'div')
    for n in nodes:
        div.append(n)
    if place == 'iframe':
        # siblings that are direct children of an iframe element (html.parser / API-built trees keep them as elements)
        body = soup.new_tag('body')
        wrap = soup.new_tag('div')
        wrap.append(div)
        body.append(wrap)
        soup.append(body)
        return soup, soup, sibs
    if place == 'parent':
        body = soup.new_tag('body')
        body.append(div)
        soup.append(body)
        return soup, soup, sibs
    return div, div, sibs                                   # detached parent


def _plan0(tier, seed):
    R, L = (3, 5) if tier == 'quick' else (7, 7)
    seqs = [''.join(p) for n in range(1, L + 1) for p in itertools.product('ab', repeat=n)]
    units = []
    chunk = 4 if tier == 'quick' else 3
    for i in range(0, len(seqs), chunk):
        units.append({'kind': 'square', 'R': R, 'seqs': seqs[i:i + chunk], 'seed': seed})
    for i in range(16 if tier == 'quick' else 64):
        units.append({'kind': 'large', 'seed': seed * 7919 + i, 'n': 150 if tier == 'quick' else 600})
    for i in range(16 if tier == 'quick' else 64):
        units.append({'kind': 'ns', 'seed': seed * 7919 + 500 + i, 'n': 60 if tier == 'quick' else 300})
    return units


def plan(tier, seed):
    """... plus the shared 'lazy' units: iselect consumed step by step while the caller edits, between two items, exactly what
    this property's pseudo-classes depend on (vlib/lazy.py; the rest of the iteration must be what the selector designates on
    the tree as it is now)."""
    units = _plan0(tier, seed)
    themes = ['nth']
    k = 16 if tier == 'quick' else 160
    units += [{'kind': 'lazy', 'theme': themes[i % len(themes)], 'seed': seed * 65521 + i, 'n': 60 if tier == 'quick' else 200} for i in range(k)]
    return units


_compiled = {}


def _compile(sv, text):
    c = _compiled.get(text)
    if c is None:
        c = sv.compile(text)
        if len(_compiled) > 200000:
            _compiled.clear()
        _compiled[text] = c
    return c


def expected(ref, sibs_sn, kind, a, b, of_ast):
    T_, U_ = ref.ev_pseudo_set(('nth', kind, a, b, of_ast))
    return [s for s in sibs_sn if s in T_], bool(U_)


def one(sv, target, top, sibs, kind_list, text, ref, idmap, orphan):
    """Run one selector; kind_list = [(kind, a, b, of_ast)] conjunction.  Returns (status, got_ids, exp_ids)."""
    sib_sn = [idmap[id(s)] for s in sibs]
    exp = None
    for (kind, a, b, of_ast) in kind_list:
        e, _ = expected(ref, sib_sn, kind, a, b, of_ast)
        ids = {id(x.obj) for x in e}
        exp = ids if exp is None else (exp & ids)
    try:
        with monitors.cpu_budget(20):
            c = _compile(sv, text)
            if orphan:
                got = {id(s) for s in sibs if c.match(s)}
            else:
                sel = c.select(target)
                got = {id(x) for x in sel if any(x is s for s in sibs)}
    except monitors.BudgetExceeded:
        return 'BUDGET', None, exp
    except Exception as ex:  # noqa: BLE001
        return 'RAISE:%s: %s' % (type(ex).__name__, str(ex)[:120]), None, exp
    return ('agree' if got == exp else 'DISAGREE'), got, exp


def run_unit(u):
    import soupsieve as sv
    res = {'evals': 0, 'sigs': [], 'viol': [], 'samples': [], 'counters': {}}
    cn = res['counters']
    sigs = set()
    viol_list = res['viol']

    def bump(k, n=1):
        cn[k] = cn.get(k, 0) + n

    def record(st, seq, inter, place, variant, text, klist, got, exp, sibs):
        res['evals'] += 1
        if st == 'agree':
            if exp and len(exp) < len(sibs):
                bump('nontrivial')
                sigs.add(sig(text.split('(')[0], klist[0][1:3], seq, inter, place))
                if len(res['samples']) < 2:
                    res['samples'].append({'selector': text, 'siblings': seq, 'interleaving': inter, 'placement': place,
                                           'matched_positions': [i + 1 for i, s in enumerate(sibs) if id(s) in exp]})
            return
        bump('VIOL')
        if len(res['viol']) < 8:
            pos_exp = [i + 1 for i, s in enumerate(sibs) if id(s) in (exp or ())]
            pos_got = None if got is None else [i + 1 for i, s in enumerate(sibs) if id(s) in got]
            res['viol'].append({'what': '%s: %s on siblings %r (%s, %s): positions got %s, An+B says %s' % (
                st, text, seq, inter, place, pos_got, pos_exp), 'selector': text, 'seq': seq, 'inter': inter,
                'place': place, 'variant': variant, 'klist': klist, 'class': sig(st[:8], text.split('(')[0], place, len(seq))})

    if u['kind'] == 'square':
        R = u['R']
        rng = random.Random(u['seed'])
        for seq in u['seqs']:
            for ii, inter in enumerate(INTER):
                for place in PLACE:
                    if place == 'orphan' and len(seq) != 1:
                        continue
                    variant = (len(seq) + ii) % 3
                    target, top, sibs = build(seq, inter, place, variant)
                    top_sn, idmap = trees.snapshot(top)
                    ref = refsel.Ref(top_sn, idmap[id(target)], False)
                    bump('docs')
                    bump('place:' + place)
                    orphan = place == 'orphan'
                    for kind in KINDS:
                        for a in range(-R, R + 1):
                            for b in range(-R, R + 1):
                                sp = spellings(a, b)
                                # every spelling on the smallest documents, a rotating pair elsewhere
                                pick = sp if len(seq) <= 2 else [sp[(a + b + len(seq)) % len(sp)], sp[(a * 3 + b + ii) % len(sp)]]
                                for toks in pick:
                                    ws = WS_VARIANTS[(a + b + len(toks)) % len(WS_VARIANTS)]
                                    text = render_nth(kind, toks, None, ws, a * 5 + b * 3 + len(seq) + ii)
                                    klist = [(kind, a, b, None)]
                                    st, got, exp = one(sv, target, top, sibs, klist, text, ref, idmap, orphan)
                                    record(st, seq, inter, place, variant, text, klist, got, exp, sibs)
                                if kind in ('nth-child', 'nth-last-child'):
                                    for of_text, of_ast in OFS.items():
                                        if (a + b + len(of_text)) % 2 and len(seq) > 3 and variant != 2:
                                            continue
                                        text = render_nth(kind, sp[0], of_text, '')
                                        klist = [(kind, a, b, of_ast)]
                                        st, got, exp = one(sv, target, top, sibs, klist, text, ref, idmap, orphan)
                                        record(st, seq, inter, place, variant, text, klist, got, exp, sibs)
                                        bump('of_S')
                                    # two positional pseudo-classes in ONE compound: an `of S` form whose S reaches, through a combinator, a
                                    # positional pseudo-class on a sibling of another type - followed (or preceded) by an -of-type form
                                    # for the element itself (each counts for the element it is asked about)
                                    if (a + 2 * b + len(seq)) % 3 == 0:
                                        for of_text, of_ast in COMBINED_OFS.items():
                                            k2, a2, b2 = COMBINED_SECOND[(a + b + len(of_text)) % len(COMBINED_SECOND)]
                                            first = render_nth(kind, sp[0], of_text, '')
                                            second = render_nth(k2, spellings(a2, b2)[0], None, '')
                                            text = (first + second) if (a + b) % 2 else (second + first)
                                            klist = [(kind, a, b, of_ast), (k2, a2, b2, None)]
                                            st, got, exp = one(sv, target, top, sibs, klist, text, ref, idmap, orphan)
                                            record(st, seq, inter, place, variant, text, klist, got, exp, sibs)
                                            bump('two_positional_in_one_compound')
                    for kw, eq in KEYWORDS.items():
                        for text in (':' + kw, ':' + kw.upper()):
                            klist = [(k, a, b, None) for (k, a, b) in eq]
                            st, got, exp = one(sv, target, top, sibs, klist, text, ref, idmap, orphan)
                            record(st, seq, inter, place, variant, text, klist, got, exp, sibs)
                            bump('keyword_forms')
    elif u['kind'] == 'ns':
        # namespace-aware trees with siblings in mixed namespaces and a caller map with a default namespace: positions
        # count *all* element siblings, whatever their namespace (the implied `of *|*`)
        from vlib import cases
        from vlib.trees import E, NS_SVG, NS_XHTML
        rng = random.Random(u['seed'])
        NSX = 'urn:v:x'
        for _ in range(u['n']):
            n = rng.randint(2, 7)
            kids = []
            for i in range(n):
                r = rng.random()
                e = E(rng.choice('ab'))
                if r < .4:
                    e.prefix, e.ns = 'x', NSX
                elif r < .6:
                    e.prefix, e.ns = 's', NS_SVG
                kids.append(e)
            root = E('root', {}, kids, nsdecl={'x': NSX, 's': NS_SVG})
            if rng.random() < .5:
                root.nsdecl[''] = 'urn:v:d'
                root.ns = 'urn:v:d'
                for k in kids:
                    if k.prefix is None:
                        k.ns = 'urn:v:d'
            # the same qualified name in another namespace: a sibling that re-declares the default namespace or re-binds a prefix
            for k in kids:
                if k.ns is None and k.prefix is None and rng.random() < .2:
                    k.ns = ''                  # "no namespace" spelled as the empty string (API-made): the same as None
                    bump('empty_string_namespace')
            for k in kids:
                r = rng.random()
                if r < .15 and k.prefix is None and k.ns != '':
                    k.nsdecl, k.ns = {'': 'urn:v:e'}, 'urn:v:e'
                    bump('same_name_other_namespace')
                elif r < .3 and k.prefix == 'x':
                    k.nsdecl, k.ns = {'x': 'urn:v:x2'}, 'urn:v:x2'
                    bump('same_name_other_namespace')
            nsmap = rng.choice([{'': NSX}, {'': 'urn:v:d', 'x': NSX}, {'x': NSX, 's': NS_SVG}, {'': NS_SVG, 'q': NSX}, None])
            try:
                case = cases.Case([root], rng.choice(['xml', 'api-xml']), ['doc'], nsmap=nsmap)
            except Exception:  # noqa: BLE001
                continue
            for _s in range(8):
                kind = rng.choice(KINDS)
                a = rng.choice([0, 1, 2, -1, 3])
                b = rng.randint(-2, n)
                pseudo = ('nth', kind, a, b, None, None) if rng.random() < .8 else (rng.choice(['first-child', 'last-child', 'only-child', 'first-of-type', 'last-of-type']),)
                comp = {'tag': rng.choice([None, None, ('*', '*'), ('x', '*'), (None, 'a')]), 'ids': [], 'classes': [], 'attrs': [], 'pseudos': [pseudo]}
                ast = [[comp]]
                st, info = cases.compare_select(sv, case, ast)
                res['evals'] += 1
                bump('mixed_namespace_cases')
                if st in ('agree', 'unspec'):
                    if st == 'agree' and info['nontrivial']:
                        bump('nontrivial')
                        sigs.add(sig('ns', info['text'], n, repr(nsmap)))
                    continue
                bump('VIOL')
                if len(viol_list) < 8:
                    viol_list.append(case.witness(ast, info['text'], '%s: select(%r, namespaces=%r) on %s -> got %s, An+B over all element siblings says %s' % (
                        st, info['text'], nsmap, trees.describe(case.soup, 300), info.get('got', info.get('exc')), info.get('exp')),
                        nsmode=True, **{'class': sig('ns', st, kind)}))
    else:
        rng = random.Random(u['seed'])
        for _ in range(u['n']):
            seq = ''.join(rng.choice('ab') for _ in range(rng.randint(1, 9)))
            inter = rng.choice(INTER)
            place = rng.choice(PLACE[:3])
            variant = rng.randrange(3)
            target, top, sibs = build(seq, inter, place, variant)
            top_sn, idmap = trees.snapshot(top)
            ref = refsel.Ref(top_sn, idmap[id(target)], False)
            for _ in range(6):
                mag = rng.choice([10, 100, 10000, 10 ** 7, 10 ** 12, 10 ** 30])
                a = rng.choice([0, 1, -1, 2, -2, rng.randint(-mag, mag)])
                b = rng.randint(-mag, mag) if rng.random() < .7 else rng.randint(-9, 9)
                kind = rng.choice(KINDS)
                sp = spellings(a, b)
                text = render_nth(kind, rng.choice(sp), None, rng.choice(WS_VARIANTS), rng.randrange(7))
                klist = [(kind, a, b, None)]
                st, got, exp = one(sv, target, top, sibs, klist, text, ref, idmap, False)
                record(st, seq, inter, place, variant, text, klist, got, exp, sibs)
                bump('large_coefficients')
    res['sigs'] = list(sigs)
    return res


def replay(w):
    import soupsieve as sv
    if w.get('nsmode'):
        from vlib import cases
        case = cases.Case(cases.rebuild(w), w['how'], w['target'], nsmap=w.get('nsmap'))
        st, info = cases.compare_select(sv, case, w['ast'], w.get('selector'))
        return None if st in ('agree', 'unspec') else dict(w, status_now=st)
    target, top, sibs = build(w['seq'], w['inter'], w['place'], w['variant'])
    top_sn, idmap = trees.snapshot(top)
    ref = refsel.Ref(top_sn, idmap[id(target)], False)
    klist = [tuple(k) for k in w['klist']]
    st, got, exp = one(sv, target, top, sibs, klist, w['selector'], ref, idmap, w['place'] == 'orphan')
    if st == 'agree':
        return None
    w = dict(w)
    w['status_now'] = st
    return w


def inconclusive(cn, tier):
    out = []
    if cn.get('nontrivial', 0) < (20000 if tier == 'quick' else 500000):
        out.append('too few non-trivial An+B cases: %d' % cn.get('nontrivial', 0))
    for p in PLACE:
        if not cn.get('place:' + p):
            out.append('placement %s not exercised' % p)
    if not cn.get('of_S') or not cn.get('keyword_forms') or not cn.get('large_coefficients') or not cn.get('mixed_namespace_cases'):
        out.append('of S / keyword / large-coefficient workloads missing')
    return out


def extra_coverage(cn, notes, tier):
    R, L = (3, 5) if tier == 'quick' else (7, 7)
    return {'exhaustive': True,
            'exhaustive_subspace': 'A,B in [-%d,%d] x 4 pseudo-classes x all a/b sequences of length 1..%d x 4 '
                                   'interleavings x placements (bounded space only; spellings rotate on longer '
                                   'sequences)' % (R, R, L)}
