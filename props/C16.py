"""C16 - importing works in either order and Beautiful Soup can always select.

Monitor: a fresh interpreter per import sequence (subprocess.run with a timeout, never a pool), with
sys.addaudithook (import order, open-for-writing, process/socket/filesystem events), a warnings recorder and a
before/after comparison of os.environ, sys.path, warnings.filters, recursion limit, thread count, cwd, stdio objects -
all installed before the first import.  Oracle: exit status 0, nothing on stdout/stderr, no import error, no
side-effect event, no warning, no state change, BeautifulSoup(...).select() == soupsieve.select() and identical
answers across all import orders.
"""
import itertools
import json
import os
import random
import subprocess
import tempfile

from vlib import env
from vlib.runner import sig

ID = 'C16'
LEVEL = 'exploration'
ANCHORS = []
RULE = ('every ordered sequence of length 1..L over 12 import forms (import bs4, from bs4 import BeautifulSoup, import bs4.element, '
        'import bs4.css, from bs4 import *, import soupsieve, from soupsieve import css_match, import soupsieve.css_parser, '
        'import soupsieve.css_types, import soupsieve.util, import soupsieve.pretty, from soupsieve import *), each in a fresh '
        'interpreter (quick: L=2 exhaustive + 350 sampled of length 3; thorough: L=3 exhaustive); afterwards 3 parsers x 9 '
        'selectors (incl. text/comment/doctype-sensitive ones) plus a CDATA/PI/declaration document under html.parser, each '
        'through BeautifulSoup.select and soupsieve.select and through the limit= / select_one / .css.iselect / .css.filter '
        'wrappers against their soupsieve counterparts.  '
        'Non-trivial = a sequence containing at least one bs4 form and one soupsieve form, or starting with a bs4 form; '
        'distinct = distinct sequences.')
ASSUMPTIONS = [
    'the interpreter is started with -B (no bytecode writing) and PYTHONPATH pointing at the tree under test, so that bs4 '
    'resolves soupsieve to the working tree',
    'answers are compared as (tag name, id) lists per (parser, selector)',
]

FORMS = ['import bs4', 'from bs4 import BeautifulSoup', 'import bs4.element', 'import bs4.css', 'from bs4 import *', 'import soupsieve',
         'from soupsieve import css_match', 'import soupsieve.css_parser', 'import soupsieve.css_types', 'import soupsieve.util',
         'import soupsieve.pretty', 'from soupsieve import *']
MARKUP = ('<!DOCTYPE html><html><head><title>t</title></head><body><!-- note --><div id="d1"><!--only comment--></div>'
          '<div id="d2"> </div><p id="p1">alpha<span id="s1">beta</span><!-- gamma --></p><p id="p2" class="x" lang="en">note'
          '<b id="b1">delta</b></p><ul id="u1"><li id="l1">1</li><li id="l2">2</li><li id="l3">3</li></ul></body></html>')
MARKUP2 = ('<![CDATA[x]]><html><head></head><body><?pi y?><p id="c1"><![CDATA[ ]]></p><p id="c2"><!DOCTYPE q></p><div id="c3"><p id="c4">alpha</p>'
           '<![CDATA[beta]]></div></body></html>')
MARKUP3 = ('<html xmlns="http://www.w3.org/1999/xhtml" xmlns:html="urn:not-xhtml" xmlns:xlink="http://www.w3.org/1999/xlink" xml:lang="en">'
           '<body><input type="checkbox" checked="checked" id="x1"/><select><option selected="selected" id="x2">o</option></select>'
           '<a xlink:href="u" href="v" id="x3">l</a><a xlink:href="w" id="x5">m</a><html:b id="x4" xml:lang="de">t</html:b>'
           '<input type="text" disabled="disabled" required="required" id="x6"/></body></html>')
SELECTORS3 = [':checked', ':disabled', ':required', ':link', ':enabled', '[xlink|href]', '[xlink|href="w"]', '[*|href]', '[href]', ':lang(de)',
              ':lang(en)', 'html|b', '[xml|lang]', ':read-write', 'a:not([xlink|href="u"])']
SELECTORS = [':root', ':empty', 'p:-soup-contains("gamma")', 'p:-soup-contains-own("note")', 'div:-soup-contains("only")',
             'li:nth-child(2n+1)', 'p.x > b, #s1', ':lang(en) b', 'body :not(:empty):first-child']
PARSERS = ['html.parser', 'lxml', 'html5lib']
MARKUP4 = ('<?xml version="1.0"?><?xml-stylesheet href="s"?><!-- c --><root><a id="e1"><?pi z?></a><b id="e2">t<?pi w?></b><c id="e3"/>'
           '<d id="e4"><![CDATA[z]]></d><e id="e5"><!-- z --></e></root><?after x?>')
SELECTORS4 = [':root', ':empty', ':root > :empty', 'a:-soup-contains("z")', 'b:-soup-contains-own("t")', ':-soup-contains("z")', ':not(:empty)',
              'd:-soup-contains-own("z")', ':-soup-contains("w")']


def plan(tier, seed):
    seqs = [list(s) for n in (1, 2) for s in itertools.product(range(len(FORMS)), repeat=n)]
    three = [list(s) for s in itertools.product(range(len(FORMS)), repeat=3)]
    if tier == 'quick':
        rng = random.Random(seed)
        seqs += rng.sample(three, 350)
    else:
        seqs += three
    chunk = 6
    return [{'seqs': seqs[i:i + chunk]} for i in range(0, len(seqs), chunk)]


def run_child(seq, timeout=120):
    spec = {'imports': [FORMS[i] for i in seq], 'markup': MARKUP, 'markup2': MARKUP2, 'selectors': SELECTORS + ['div:-soup-contains("beta")', '[data-v="3 4"]', '[data-v~=b], [data-v="7"]', '.k', '[data-v]:not([data-v*=a])'],
            'parsers': PARSERS, 'markup3': MARKUP3, 'selectors3': SELECTORS3, 'markup4': MARKUP4, 'selectors4': SELECTORS4}
    d = tempfile.mkdtemp(prefix='c16.')
    try:
        sp, op = os.path.join(d, 'spec.json'), os.path.join(d, 'out.json')
        json.dump(spec, open(sp, 'w'))
        e = {k: v for k, v in os.environ.items() if not k.startswith('PYTHON')}
        e['PYTHONPATH'] = env.REPO
        e['PYTHONHASHSEED'] = '0'
        try:
            r = subprocess.run([env.PYTHON, '-B', os.path.join(env.VERIF, 'vlib', 'child.py'), sp, op], capture_output=True, text=True,
                               timeout=timeout, env=e, cwd=d)
        except subprocess.TimeoutExpired:
            return {'timeout': True}
        out = {'exit': r.returncode, 'stdout': r.stdout[-500:], 'stderr': r.stderr[-1500:]}
        if os.path.exists(op):
            out.update(json.load(open(op)))
        return out
    finally:
        for f in os.listdir(d):
            os.unlink(os.path.join(d, f))
        os.rmdir(d)


def problems(o):
    bad = []
    if o.get('timeout'):
        return ['interpreter did not finish within the watchdog'], True
    if o.get('exit') != 0:
        bad.append('exit status %s: %s' % (o.get('exit'), o.get('stderr', '')[-300:].replace('\n', ' | ')))
    if o.get('stdout'):
        bad.append('output on stdout: %r' % o['stdout'][:120])
    if o.get('stderr') and o.get('exit') == 0:
        bad.append('output on stderr: %r' % o['stderr'][:200])
    for e in o.get('errors', ()):
        bad.append('import failed: ' + e)
    for s in o.get('side_effects', ()):
        bad.append('side effect while importing: ' + s)
    for w in o.get('warnings', ()):
        if w.get('phase') == 'import':
            bad.append('warning while importing: %s: %s (%s)' % (w['category'], w['message'], os.path.basename(w['file'])))
    for s in o.get('state_changed', ()):
        bad.append('interpreter state changed by the imports: ' + s)
    if 'soupsieve_file' in o and not os.path.realpath(o['soupsieve_file']).startswith(env.REPO + os.sep):
        return ['child imported soupsieve from %s' % o['soupsieve_file']], True
    for k, (a, b) in sorted(o.get('results', {}).items()):
        if a != b:
            bad.append('BeautifulSoup.select and soupsieve.select disagree for %s: %r vs %r' % (k, a, b))
        if isinstance(a, str):
            bad.append('select raised for %s: %s' % (k, a))
    return bad, False


_reference = {}


def reference():
    if 'r' not in _reference:
        _reference['r'] = run_child([FORMS.index('import soupsieve'), FORMS.index('import bs4')])
    return _reference['r']


def run_unit(u):
    res = {'evals': 0, 'sigs': [], 'viol': [], 'samples': [], 'counters': {}}
    cn = res['counters']
    sigs = set()
    ref = reference()
    for seq in u['seqs']:
        o = run_child(seq)
        res['evals'] += 1
        cn['interpreters'] = cn.get('interpreters', 0) + 1
        bad, harness = problems(o)
        if harness:
            cn['harness_problem'] = cn.get('harness_problem', 0) + 1
            res.setdefault('notes', {}).setdefault('harness', []).append(bad[0])
            continue
        names = [FORMS[i] for i in seq]
        if not bad and o.get('results') != ref.get('results'):
            diff = [k for k in o.get('results', {}) if o['results'][k] != ref.get('results', {}).get(k)]
            bad.append('answers differ from the soupsieve-first order for %s' % diff[:4])
        has_b = any('bs4' in n for n in names)
        has_s = any('soupsieve' in n for n in names)
        if (has_b and has_s) or 'bs4' in names[0]:
            cn['nontrivial'] = cn.get('nontrivial', 0) + 1
            sigs.add(sig(seq))
        if bad:
            cn['VIOL'] = cn.get('VIOL', 0) + 1
            if len(res['viol']) < 8:
                res['viol'].append({'what': 'fresh interpreter [%s]: %s' % ('; '.join(names), ' || '.join(bad[:3])), 'seq': seq,
                                    'selector': '; '.join(names), 'class': sig(sorted(b.split(':')[0][:40] for b in bad)[:2], names[0])})
        elif len(res['samples']) < 1:
            res['samples'].append({'imports': names, 'import_order_seen_by_audit_hook': o.get('imports', [])[:8],
                                   'answers': len(o.get('results', {}))})
    res['sigs'] = list(sigs)
    return res


def replay(w):
    o = run_child(w['seq'])
    bad, harness = problems(o)
    ref = reference()
    if not bad and o.get('results') != ref.get('results'):
        bad = ['answers differ from the soupsieve-first order']
    return dict(w, status_now=bad) if bad else None


def inconclusive(cn, tier):
    out = []
    if cn.get('interpreters', 0) < (400 if tier == 'quick' else 1800):
        out.append('too few interpreters: %d' % cn.get('interpreters', 0))
    if cn.get('harness_problem'):
        out.append('%d child interpreters had harness problems' % cn['harness_problem'])
    return out


def extra_coverage(cn, notes, tier):
    return {'exhaustive': True, 'exhaustive_subspace': 'all import sequences of length <= %d over %d forms' % (2 if tier == 'quick' else 3, len(FORMS))}
