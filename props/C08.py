"""C08 - matching never raises on any tree.

Monitors: exception sanitizer at the API boundary (anything but TypeError-for-a-non-Tag-target is a violation), an
ITIMER_VIRTUAL CPU budget on every call and a LINE-event step counter on a sample (bounded restatement of
"terminates").
Workload: every pseudo-class the parser knows (plus attribute/class/id/combinator glue) x hostile HTML/XML trees
(missing/empty/wrong-case/malformed/huge type,min,max,value,dir,lang,name,placeholder,contenteditable,http-equiv,
content; multi-valued attributes as lists; bidi/astral text), detached fragments, several top-level nodes,
parentless elements, foreign/unknown namespaces, four parsers and API-built trees; every element, the document and
non-Tag objects as targets; odd values (None, numbers, bytes, nested lists) on attributes that only
attribute/class/id selectors read.
"""
import random

from vlib import htmlgen, monitors, sels, trees
from vlib.runner import sig
from vlib.trees import E, T

ID = 'C08'
LEVEL = 'exploration'
ANCHORS = ['_DocumentNav.normalize_value', 'CSSMatch.match_range', 'Inputs.parse_value', 'Inputs.validate_week',
           'CSSMatch.match_dir', 'CSSMatch.match_lang', 'CSSMatch.match_default', 'CSSMatch.match_indeterminate',
           '_DocumentNav.assert_valid_input', 'CSSMatch.find_bidi', 'CSSMatch.match_nth', '_DocumentNav.create_fake_parent']
RULE = ('random (tree, selector, target, entry point): generated form documents and generic trees with hostile attribute '
        'values, materialised by the bs4 API / html.parser / lxml / html5lib / lxml-xml, targets = document, every kind of '
        'element, detached subtrees (biased to form-structure elements), never-attached elements, and non-Tag objects; '
        'selectors = every pseudo-class of the parser + generated compound/complex selectors; entry points = select, '
        'select_one, iselect, match, filter, closest (module level, compiled, and compiled objects after a pickle / deepcopy round trip); '
        'An+B coefficients up to 10^22.  Non-trivial = a call that reached the '
        'matcher on a tree with at least one hostile value; distinct = distinct (selector, entry point, target kind, document '
        'shape hash).')
ASSUMPTIONS = [
    'attribute values have the shapes parsers store: str, or list of str for the multi-valued attributes bs4 knows '
    '(class rel rev accept-charset headers accesskey dropzone); odd values (None, numbers, bytes, nested lists) only on '
    'id, class, title, data-*',
    'terminates is restated as: returns within 8 CPU-seconds and (on a 10% sample) within 5*10^6 interpreted lines of '
    'soupsieve code, >= 100x the largest count observed on the unchanged tree for trees of this size',
]

PSEUDOS = [':any-link', ':empty', ':first-child', ':first-of-type', ':in-range', ':out-of-range', ':last-child', ':last-of-type',
           ':link', ':only-child', ':only-of-type', ':root', ':checked', ':default', ':disabled', ':enabled', ':indeterminate',
           ':optional', ':placeholder-shown', ':read-only', ':read-write', ':required', ':scope', ':defined', ':hover', ':focus',
           ':target', ':active', ':visited', ':focus-within', ':focus-visible', ':future', ':past', ':paused', ':playing',
           ':local-link', ':target-within', ':user-invalid', ':current', ':host', ':dir(ltr)', ':dir(rtl)', ':lang(en)',
           ':lang("*-US")', ':lang("")', ':lang("*")', ':nth-child(2n+1)', ':nth-child(2 of p, .x)', ':nth-last-of-type(-n+2)',
           ':nth-of-type(odd)', ':nth-last-child(1)', ':-soup-contains(t)', ':-soup-contains-own("a", z)', ':host(p)',
           ':current(p)', ':host-context(p)', '&', ':is(:default, :indeterminate)', ':not(:in-range)', ':has(:checked)',
           ':has(> :dir(rtl))', ':has(+ :lang(en))', 'form :default', 'fieldset :disabled', ':enabled:not(:read-only)',
           ':root :dir(ltr)', ':in-range, :out-of-range', 'input:optional', 'legend :enabled', ':not(:disabled)',
           ':read-write:placeholder-shown', ':is(:link, :any-link)', ':nth-child(odd of :enabled)', '*|*:lang(en)',
           # coefficients far beyond any sibling count: the answer is arithmetic, the call must still terminate
           ':nth-child(-n+4000000000)', ':nth-last-of-type(-3n+10000000000000000000000)', ':nth-child(7n-900000000000)',
           ':nth-of-type(-1000000007n+99999999999999999999)', ':nth-last-child(n+123456789012)', ':nth-child(-2n+30000001 of p)']
HOSTILE = {
    'type': ['', 'TEXT', 'week', 'Week', 'date', 'month', 'time', 'datetime-local', 'number', 'range', 'radio', 'checkbox', 'submit',
             'x' * 300, 'tel', 'hidden', ' date', 'date ', 'é', '\x00', 'te\udc9dxt', '\ud800', 'wee\u212a'],
    'min': ['', '1', '-', '.', '1.', '1e999', '0' * 5000, '9' * 5000, '9' * 5000 + '-01-01', '9' * 5000 + '-W01', '0000-01-01', '0000-W01',
            '0999-W01', '10000-W01', '10000-01-01', '2019-W00', '2019-W53', '2019-W54', '2019-13', '2019-00', '24:00', '23:60', '-1:00',
            '2019-02-30', '2019-02-29T25:00', '2019-01-01T', 'T10:00', '1' * 4300, '1' * 4301, '0x10', '١٢', '１２', ' 5', '5 ', '+5', 'NaN',
            'inf', '-inf', '1_0', '\x00', '2019-W1', '2019-1-1', '99999999999999999999-12', 'W01', '-0001-01-01'],
    'dir': ['', 'LTR', 'Rtl', 'auto', 'AUTO', 'x', ' ltr', 'ltr rtl', '\x00', 'rt\udfffl', '\ud83d'],
    'lang': ['', 'en', 'EN-us', '*', '-', 'en--US', 'a-' * 300, '-en', 'en-', 'x' * 3000, ' ', '\x00', 'é'],
    'name': ['', 'r', 'R', ' ', 'x' * 1000, '\x00'],
    'placeholder': ['', ' ', 'p', '\n'],
    'contenteditable': ['', 'true', 'TRUE', 'false', 'plaintext-only', 'x'],
    'http-equiv': ['content-language', 'Content-Language', '', 'refresh', 'x', 'content-langua\udc00ge'],
    'content': ['', 'en', 'en, de', ' ', 'x' * 2000],
    'value': ['', '5', 'x', 'אב', '\U0001f600', '2019-W53', '9' * 5000],
    'checked': ['', 'checked', 'false'], 'disabled': ['', 'disabled'], 'required': [''], 'readonly': [''], 'href': ['', 'u'],
    'selected': [''], 'indeterminate': [''],
}
HOSTILE['max'] = HOSTILE['min']
BIG = '9' * 5000
SHAPED = {
    'week': ['0999-W01', '10000-W01', '0001-W01', '0000-W01', '2019-W00', '2019-W53', '2020-W53', '2019-W54', BIG + '-W01', '99999-W52',
             '2147483647-W01', '2147483648-W01', '99999999999-W10', '1' * 20 + '-W01', '9' * 300 + '-W52', '4294967296-W53',
             '2019-W1', '2019-w10', '0100-W53', '123456789-W10', '2019-W10', ''],
    'date': ['0999-01-01', '10000-01-01', '0000-01-01', '2019-02-29', '2020-02-29', '1900-02-29', '2000-02-29', BIG + '-01-01',
             '2147483648-02-29', '99999999999-12-31', '1' * 20 + '-01-01', '9' * 300 + '-06-30',
             '2019-13-01', '2019-00-10', '2019-01-32', '2019-1-1', '12000-12-31', '2019-06-15', ''],
    'month': ['0999-01', '10000-12', '0000-01', BIG + '-01', '2019-13', '2019-00', '2019-1', '2019-06', '', '2147483648-01', '9' * 40 + '-12'],
    'time': ['24:00', '23:60', '00:00', '23:59', '-1:00', '1:00', '12:30', '99:99', ''],
    'datetime-local': ['2019-02-29T25:00', '2019-01-01T', 'T10:00', '10000-01-01T00:00', '0999-12-31T23:59', BIG + '-01-01T00:00',
                       '2147483648-01-01T00:00', '9' * 30 + '-02-28T23:59',
                       '2019-06-15T12:30', '2019-06-15 12:30', ''],
    'number': ['1e999', BIG, '-' + BIG, '.' + BIG, '1.', '.5', '-.5', '+5', '5', 'NaN', 'inf', '0x10', '١٢', '１２', '1_0', ''],
    'range': ['5', '-5', '1e3', BIG, '', ' 5'],
}
MULTI = ['class', 'rel', 'rev', 'accept-charset', 'headers', 'accesskey', 'dropzone']
ODD_ATTRS = ['id', 'class', 'title', 'data-x']
TEXTS = ['abc', 'אבג', '123', ' ', '‏', 'ابج x', '', '\U0001f600\U00010330', 'x' * 2000, '\n', '\ud800']
STEP_LIMIT = 5000000


def _plan0(tier, seed):
    n = 96 if tier == 'quick' else 1920
    per = 450 if tier == 'quick' else 1000
    return [{'seed': seed * 7001 + i, 'n': per} for i in range(n)]


def plan(tier, seed):
    """... plus the shared 'lazy' units in their structural reading: iselect consumed step by step while the caller detaches, destroys,
    replaces or wraps the element just delivered (or its neighbours); continuing the iteration must not raise (vlib/lazy.py)."""
    units = _plan0(tier, seed)
    k = 16 if tier == 'quick' else 160
    units += [{'kind': 'lazy', 'theme': 'structural', 'seed': seed * 65521 + i, 'n': 60 if tier == 'quick' else 200} for i in range(k)]
    return units


def hostile(rng, tops):
    """Sprinkle hostile values over a recipe (in place).  Returns number of hostile values set."""
    n = [0]

    def rec(e):
        if e.name == 'input' and rng.random() < .35:
            # correlated hostile values: a range-typed input whose bounds have (almost) the right shape for its type
            ty = rng.choice(list(SHAPED))
            e.attrs['type'] = rng.choice([ty, ty.upper(), ty])
            for a in ('min', 'max', 'value'):
                if rng.random() < .6:
                    e.attrs[a] = rng.choice(SHAPED[ty])
            n[0] += 1
        for a, vals in HOSTILE.items():
            p = .25 if a in e.attrs else (.06 if e.name in ('input', 'meta', 'textarea', 'button', 'select', 'option', 'progress') else .015)
            if rng.random() < p:
                e.attrs[a] = rng.choice(vals)
                n[0] += 1
        if rng.random() < .12:
            e.attrs[rng.choice(MULTI)] = rng.choice([[], ['a'], ['a', 'b'], ['', ' '], ['x' * 100] * 3])
            n[0] += 1
        if rng.random() < .06 and e.name not in ('html', 'head', 'body'):
            e.kids.append(T('text', rng.choice(TEXTS)))
        for k in e.kids:
            if isinstance(k, E):
                rec(k)
    for t in tops:
        if isinstance(t, E):
            rec(t)
    return n[0]


def odd_values(rng, soup):
    """Odd values the bs4 API permits, only on attributes that no pseudo-class reads."""
    import bs4
    n = 0
    for e in soup.find_all(True):
        if rng.random() < .15:
            e.attrs[rng.choice(ODD_ATTRS)] = rng.choice([None, 5, 5.5, True, b'bytes', b'\xff\xfe', ['a', ['b', ['c']]], [None, 1, b'x'],
                                                         [], [[]], ('t', 'u'), {'d': 1}, 0, '', object])
            n += 1
    return n


def gen_case(rng):
    r = rng.random()
    if r < .65:
        tops = htmlgen.gen_form_doc(rng, max_nodes=24)
        how = rng.choice(['api', 'html.parser', 'html.parser', 'lxml', 'html5lib', 'xml', 'api-xml'])
    else:
        root, _ = trees.gen_tree(rng, max_nodes=18, names=['p', 'a', 'div', 'input', 'form', 'span', 'legend', 'fieldset', 'meta',
                                                           'html', 'head', 'body', 'iframe', 'svg', 'math', 'bdi', 'textarea'])
        tops, _m = trees.wrap(rng, root)
        how = rng.choice(trees.MATERIALISERS)
    if how in ('xml', 'api-xml') and rng.random() < .5:
        # foreign / unknown namespaces and XHTML
        def ns(e):
            rr = rng.random()
            if rr < .3:
                e.prefix, e.ns = 'h', trees.NS_XHTML
            elif rr < .45:
                e.prefix, e.ns = 'u', 'urn:unknown'
            for k in e.kids:
                if isinstance(k, E):
                    ns(k)
        for t in tops:
            if isinstance(t, E):
                ns(t)
                t.nsdecl = {'h': trees.NS_XHTML, 'u': 'urn:unknown'}
        tops = [t for t in tops if isinstance(t, E)][:1] or tops
    nh = hostile(rng, tops)
    return tops, how, nh


def pick_target(rng, soup):
    import bs4
    els = [e for e in soup.descendants if isinstance(e, bs4.Tag)]
    r = rng.random()
    if r < .3 or not els:
        return 'doc', soup
    if r < .6:
        return 'el', rng.choice(els)
    if r < .8:
        struct = [e for e in els if e.name in ('legend', 'fieldset', 'form', 'select', 'optgroup', 'option', 'input', 'iframe', 'html', 'body')]
        e = rng.choice(struct or els)
        e.extract()
        inner = [x for x in e.descendants if isinstance(x, bs4.Tag)]
        return 'detached', (rng.choice(inner) if inner and rng.random() < .6 else e)
    if r < .9:
        t = soup.new_tag(rng.choice(['input', 'p', 'legend', 'option', 'form', 'html']))
        t.attrs.update({'type': rng.choice(HOSTILE['type']), 'min': rng.choice(HOSTILE['min'])})
        if rng.random() < .5:
            t.append(soup.new_tag('input'))
        return 'orphan', t
    return 'nontag', rng.choice([None, 'str', 5, bs4.NavigableString('n'), bs4.Comment('c'), b'x', [], object()])


def run_unit(u):
    import warnings
    import bs4
    import soupsieve as sv
    warnings.simplefilter('ignore')
    rng = random.Random(u['seed'])
    res = {'evals': 0, 'sigs': [], 'viol': [], 'samples': [], 'counters': {}, 'notes': {}}
    cn = res['counters']
    sigs = set()
    cfg = sels.Cfg(extra=[(.5, lambda r, d: ('raw', r.choice(PSEUDOS)))], p_id=.15, p_class=.25, p_attr=.3, p_struct=.1,
                   attrs=['title', 'data-x', 'id', 'class', 'type', 'min', 'lang', 'dir', 'rel', 'value', 'name'],
                   names=['p', 'a', 'input', 'form', 'span', 'legend', 'fieldset', 'div', 'meta', 'option'])
    max_steps = 0

    def bump(k, n=1):
        cn[k] = cn.get(k, 0) + n

    for _ in range(u['n']):
        if cn.get('budget_exhausted', 0) >= 3:
            # three calls already ran into the CPU/step budget: the verdict is decided, do not burn the wall-clock watchdog
            bump('unit_cut_short')
            break
        tops, how, nh = gen_case(rng)
        try:
            soup = trees.materialise(tops, how)
        except Exception:  # noqa: BLE001 - a parser refusing hostile markup is not soupsieve's problem
            bump('materialise_failed')
            continue
        no = odd_values(rng, soup) if rng.random() < .4 else 0
        shape = sig(trees.describe(soup, 300))
        for _c in range(10):
            if cn.get('budget_exhausted', 0) >= 3:
                break
            kind, tgt = pick_target(rng, soup)
            sel = rng.choice(PSEUDOS) if rng.random() < .55 else sels.render(sels.gen_list(rng, rng.choice([1, 2]), cfg))
            op = rng.choice(['select', 'select', 'select_one', 'iselect', 'match', 'filter', 'closest'])
            compiled = rng.random() < .4
            try:
                c = sv.compile(sel)
            except Exception:  # noqa: BLE001 - compile errors are C06's business
                bump('compile_raised')
                continue

            if compiled and rng.random() < .4:
                # "every compiled selector": also one that went through pickle or copy.deepcopy
                import copy
                import pickle
                try:
                    c = pickle.loads(pickle.dumps(c)) if rng.random() < .5 else copy.deepcopy(c)
                    bump('copied_compiled_objects')
                except Exception:  # noqa: BLE001 - copying is C15's business
                    bump('copy_failed')

            def call():
                if compiled:
                    f = getattr(c, op)
                    r = f(tgt)
                else:
                    r = getattr(sv, op)(sel, tgt)
                if op == 'iselect':
                    r = list(r)
                return r
            sample = rng.random() < .1
            if sample:
                sc = monitors.StepCounter(STEP_LIMIT)
                try:
                    with sc:
                        st, val = monitors.guarded_call(call, budget=8.0)
                except monitors.BudgetExceeded:
                    st, val = 'steps', None
                max_steps = max(max_steps, sc.n)
                bump('step_counted_calls')
            else:
                st, val = monitors.guarded_call(call, budget=8.0)
            res['evals'] += 1
            if st in ('budget', 'steps'):
                bump('budget_exhausted')
            bump('op:' + op)
            bump('target:' + kind)
            bump('how:' + how)
            ok = True
            if kind == 'nontag':
                # filter() accepts any iterable; a non-Tag target must give TypeError (or, for filter, an iterable result)
                if st == 'raise' and not isinstance(val, TypeError):
                    ok = False
                elif st == 'ok' and op != 'filter':
                    ok = False
                    val = 'returned %r for a non-Tag target' % (val,)
                elif st in ('budget', 'steps'):
                    ok = False
            else:
                ok = st == 'ok'
                if ok and (nh or no):
                    bump('nontrivial')
                    sigs.add(sig(sel, op, kind, shape))
            if not ok:
                bump('VIOL')
                site = monitors.exc_site(val) if isinstance(val, BaseException) else st
                if len(res['viol']) < 8:
                    res['viol'].append({
                        'what': '%s(%r) on %s target of a %s document %s: %s' % (
                            op, sel, kind, how, 'exceeded its %s budget' % st if st in ('budget', 'steps') else 'raised',
                            ('%s: %s [%s]' % (type(val).__name__, str(val)[:160], site)) if isinstance(val, BaseException) else val),
                        'selector': sel, 'op': op, 'target_kind': kind, 'how': how, 'tree': [t.to_json() for t in tops],
                        'target_desc': trees.describe(tgt, 300) if isinstance(tgt, bs4.Tag) else repr(tgt),
                        'markup': trees.describe(soup, 600), 'class': sig(type(val).__name__ if isinstance(val, BaseException) else st, site)})
            elif len(res['samples']) < 2 and nh and kind != 'nontag':
                res['samples'].append({'selector': sel, 'op': op, 'target': kind, 'how': how, 'hostile_values': nh,
                                       'markup': trees.describe(soup, 260)})
    res['notes']['max_steps'] = [max_steps]
    res['sigs'] = list(sigs)
    return res


def replay(w):
    """Re-run the witnessed (selector, op) on every element/doc/detached variant of the rebuilt tree."""
    import warnings
    import bs4
    import soupsieve as sv
    warnings.simplefilter('ignore')
    tops = [trees.from_json(j) for j in w['tree']]
    bad = []
    for detach in (False, True):
        soup = trees.materialise(tops, w['how'])
        els = [e for e in soup.descendants if isinstance(e, bs4.Tag)]
        targets = [soup] + els
        if detach:
            for e in els:
                if e.name in ('legend', 'fieldset', 'form', 'select', 'optgroup', 'option', 'input', 'iframe'):
                    e.extract()
        import copy
        import pickle
        objs = [sv, sv.compile(w['selector'])]
        objs += [pickle.loads(pickle.dumps(objs[1])), copy.deepcopy(objs[1])]
        for t in targets:
            for o in objs:
                a = (w['selector'], t) if o is sv else (t,)
                st, val = monitors.guarded_call(lambda: (list(getattr(o, w['op'])(*a)) if w['op'] == 'iselect' else getattr(o, w['op'])(*a)),
                                                budget=8.0)
                if st != 'ok':
                    bad.append('%s: %r' % (st, val))
                    break
    if not bad:
        return None
    return dict(w, status_now=sorted(set(bad))[:5])


def inconclusive(cn, tier):
    out = []
    if cn.get('nontrivial', 0) < (10000 if tier == 'quick' else 400000):
        out.append('too few calls on hostile trees: %d' % cn.get('nontrivial', 0))
    for k in ('target:doc', 'target:el', 'target:detached', 'target:orphan', 'target:nontag', 'step_counted_calls'):
        if not cn.get(k):
            out.append('%s never exercised' % k)
    return out


def extra_coverage(cn, notes, tier):
    return {'max_interpreted_lines_in_one_call_on_sample': max(notes.get('max_steps', [0]) or [0]), 'step_limit': STEP_LIMIT}
