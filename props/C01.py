"""C01 - select() returns exactly the elements CSS semantics designate.

Oracle: reference semantics (vlib/refsel.py) on a snapshot of the very same bs4 tree; compared by node identity.
Workload: random (tree, selector) pairs over six materialisers and three kinds of call target, plus the complete
small scope (every tree with <= N nodes over names {a,b} and node kinds {element, blank text, text, comment}
x every selector of a bounded grammar).
"""
import itertools
import random

from vlib import cases, env, monitors, sels, shrink, trees
from vlib.runner import sig
from vlib.trees import E, T

ID = 'C01'
LEVEL = 'exploration'
DESIGN_REF = '4/C01'
ANCHORS = ['CSSMatch.match_selectors', 'CSSMatch.match_past_relations', 'CSSMatch.match_future_relations',
           'CSSMatch.match_future_child', 'CSSParser.parse_attribute_selector', 'CSSMatch.match_attribute_name',
           'CSSMatch.match_attributes', 'CSSMatch.match_root', 'CSSMatch.match_empty', 'CSSMatch.match_nth',
           '_Selector.freeze', 'CSSParser.parse_combinator', 'CSSParser.parse_has_combinator']
RULE = ('random (tree, selector, target) triples: trees of 1-40 elements (depth <= 6) with none/blank/mixed '
        'text-comment-CDATA-PI interleaving, with/without html/body wrapper, one or several top-level nodes, built '
        'through the bs4 API (HTML and XML flavoured) or parsed by html.parser/lxml/html5lib/lxml-xml; selectors of '
        'the C01 grammar (depth <= 3, <= 4 compounds, <= 3 alternatives); targets = document, inner element, '
        'detached subtree; 5% of the selectors are forgiving lists with empty / dangling-combinator members, 15% of the trees carry mixed-case attribute keys (svg viewBox, data-Key); plus the exhaustive small scope.  A case is non-trivial when the expected set is neither '
        'empty nor all descendants of the target; distinct = distinct (selector shape, tree shape) signatures among '
        'non-trivial compared cases.')
ASSUMPTIONS = [
    'the reference semantics in vlib/refsel.py is the intended reading of Selectors 3/4 for the stated grammar',
    ':root is compared only on documents with exactly one top-level element and no top-level CDATA/non-blank text',
    'case-insensitive comparisons are generated over ASCII letters and uncased characters only',
    'namespaces are not exercised here (C12), iframes are not generated here (C05/C13/C17/C19)',
    'bs4 public attributes (contents, name, prefix, namespace, attrs) describe the tree faithfully',
]

HOWS = ['api', 'api', 'html.parser', 'lxml', 'html5lib', 'xml', 'api-xml']


def plan(tier, seed):
    units = []
    n_rand = 96 if tier == 'quick' else 1600
    per = 160 if tier == 'quick' else 400
    for i in range(n_rand):
        units.append({'kind': 'rand', 'seed': seed * 1000003 + i, 'n': per})
    nodes = 3 if tier == 'quick' else 4
    parts = 32 if tier == 'quick' else 256
    for i in range(parts):
        units.append({'kind': 'scope', 'nodes': nodes, 'part': i, 'of': parts, 'tier': tier})
    return units


# ---------------------------------------------------------------------------------------------------------
# small scope

LABELS = [('a', {}), ('b', {}), ('a', {'class': ['x'], 'title': ''}), ('b', {'class': ['x'], 'title': 'x'})]
LEAVES = [('text', ' '), ('text', 't'), ('comment', 'c')]


def _forests(n):
    """All ordered forests with exactly n nodes (elements with labels, leaves)."""
    if n == 0:
        yield []
        return
    for first in range(1, n + 1):            # size of the first tree
        for rest in _forests(n - first):
            # first tree is a leaf
            if first == 1:
                for kind, text in LEAVES:
                    yield [T(kind, text)] + rest
            for name, attrs in LABELS:
                for kids in _forests(first - 1):
                    yield [E(name, dict(attrs), kids)] + rest


def scope_trees(max_nodes):
    for n in range(1, max_nodes + 1):
        for name, attrs in LABELS:
            for kids in _forests(n - 1):
                yield E(name, dict(attrs), kids)


def _c(**kw):
    c = {'tag': None, 'ids': [], 'classes': [], 'attrs': [], 'pseudos': []}
    c.update(kw)
    return c


def scope_compounds():
    A, B = _c(tag=(None, 'a')), _c(tag=(None, 'b'))
    X = _c(classes=['x'])
    out = [A, B, _c(tag=(None, '*')), X, _c(tag=(None, 'a'), classes=['x']),
           _c(attrs=[(None, 'title', '', None, None)]), _c(attrs=[(None, 'title', '=', '', None)]),
           _c(attrs=[(None, 'title', '^=', '', None)]), _c(attrs=[(None, 'title', '*=', 'x', None)]),
           _c(attrs=[(None, 'title', '!=', 'x', None)])]
    for s in sels.STRUCT:
        out.append(_c(pseudos=[(s,)]))
    out.append(_c(pseudos=[('not', [[A]])]))
    out.append(_c(pseudos=[('not', [[X]])]))
    out.append(_c(pseudos=[('is', [[A], [X]])]))
    for cb in sels.COMBS:
        out.append(_c(pseudos=[('has', [(cb, [B])])]))
    out.append(_c(pseudos=[('not', [[_c(pseudos=[('has', [('>', [_c(tag=(None, '*'))])])])]])]))
    return out


def scope_selectors(tier):
    cs = scope_compounds()
    out = [[[c]] for c in cs]
    right = cs if tier == 'thorough' else cs[:14]
    for l in cs:
        for cb in sels.COMBS:
            for r in right:
                out.append([[l, cb, r]])
    for l, r in itertools.combinations(cs[:8], 2):
        out.append([[l], [r]])
    if tier == 'thorough':
        for l in cs[:6]:
            for cb1 in sels.COMBS:
                for cb2 in sels.COMBS:
                    out.append([[l, cb1, cs[2], cb2, cs[1]]])
    return out


# ---------------------------------------------------------------------------------------------------------

def twin_case(rng):
    """Two subtrees that are equal by value under different parents, and :has() selectors whose argument looks *above*
    the anchor (so that the answer differs for the two twins although they compare equal)."""
    import copy
    names = rng.sample(['a', 'b', 'p', 'div', 'span', 'li'], 4)
    p1, p2, t, c = names
    inner = E(c, {'class': ['k']} if rng.random() < .5 else {}, [T('text', 'x')] if rng.random() < .5 else [])
    twin = E(t, {'class': ['x']} if rng.random() < .5 else {}, [inner] + ([E(c)] if rng.random() < .3 else []))
    a = E(p1, {}, [copy.deepcopy(twin)])
    b = E(p2, {}, [copy.deepcopy(twin)] + ([copy.deepcopy(twin)] if rng.random() < .3 else []))
    kids = [a, b] if rng.random() < .5 else [b, E('li'), a]
    root = E('div', {}, kids)

    def comp(tag=None, **kw):
        d = {'tag': (None, tag) if tag else None, 'ids': [], 'classes': [], 'attrs': [], 'pseudos': []}
        d.update(kw)
        return d
    up = [comp(p1), rng.choice([' ', '>']), comp(c)]
    forms = [
        [[comp(t, pseudos=[('has', [('>', [comp(pseudos=[('is', [up])])])])])]],
        [[comp(t, pseudos=[('has', [(' ', [comp(c, pseudos=[('not', [[comp(p2), ' ', comp('*')]])])])])])]],
        [[comp(pseudos=[('has', [('>', [comp(t), '>', comp(pseudos=[('is', [[comp(p1), '>', comp('*'), '>', comp(c)]])])])])])]],
        [[comp(t, pseudos=[('has', [(' ', [comp(pseudos=[('is', [up, [comp(classes=['zz'])]])])])])])]],
        [[comp(t, pseudos=[('not', [[comp(pseudos=[('has', [('>', [comp(pseudos=[('where', [up])])])])])]])])]],
    ]
    return root, rng.choice(forms)


def _cfg():
    return sels.Cfg(p_id=.1, p_class=.22, p_attr=.25, p_struct=.2, p_more=.35)


def check_case(sv, case, ast, text=None, match_law=False):
    st, info = cases.compare_select(sv, case, ast, text, match_law=match_law)
    return st, info


def forgiving_form(rng, cfg):
    """(ast, text): :is()/:where() whose written list has extra members that contribute nothing - empty ones and
    ones ending in a dangling combinator (forgiving selector list) - the reference evaluates the list without them."""
    members = sels.gen_list(rng, rng.choice([1, 2, 2, 3]), cfg)
    nm = rng.choice(['is', 'where'])
    ast = [[{'tag': None, 'ids': [], 'classes': [], 'attrs': [], 'pseudos': [(nm, members)]}]]
    parts = [sels.render_complex(m) for m in members]
    for _ in range(rng.choice([1, 1, 2])):
        junk = sels.render_complex(sels.gen_list(rng, 1, cfg)[0]) + rng.choice([' >', '>', ' + ', '~', ' ~ ', ' > '])
        parts.insert(rng.randrange(len(parts)), rng.choice([junk, junk, junk, '', ' ']))      # never last: a trailing dangling member is rejected
    if rng.random() < .2:
        parts.append('')
    text = ':%s(%s)' % (nm, rng.choice([',', ', ', ' , ']).join(parts))
    if rng.random() < .3:
        ast = [[{'tag': (None, '*'), 'ids': [], 'classes': [], 'attrs': [], 'pseudos': []}, ' ', ast[0][0]]]
        text = '* ' + text
    return ast, text


def _fails_factory(sv, how, target, kind):
    def fails(tops, ast):
        case = cases.Case(tops, how, target)
        st, info = cases.compare_select(sv, case, ast)
        return st == kind
    return fails


def run_unit(u):
    import soupsieve as sv
    res = {'evals': 0, 'sigs': [], 'viol': [], 'samples': [], 'counters': {}}
    cn = res['counters']

    def bump(k, n=1):
        cn[k] = cn.get(k, 0) + n

    sigs = set()

    def handle(case, ast, st, info, tops):
        res['evals'] += 1
        bump('cases')
        bump('how:' + case.how)
        bump('target:' + case.target[0])
        if st == 'unspec':
            bump('unspecified')
            return
        if st == 'agree':
            if info['nontrivial']:
                bump('nontrivial')
                sigs.add(sig(sels.shape(ast), cases.tree_shape(case.top_sn)))
            elif info['n_exp']:
                bump('expected_all')
            else:
                bump('expected_empty')
            if len(res['samples']) < 2 and info['nontrivial']:
                res['samples'].append({'selector': info['text'], 'how': case.how, 'target': case.target,
                                       'markup': trees.describe(case.top_obj, 200), 'selected': info['n_exp'],
                                       'of': info['n_all']})
            return
        bump('VIOL:' + st)
        if len(res['viol']) >= 6:
            return
        how, target = case.how, case.target
        try:
            stops, sast = shrink.shrink(tops, ast, _fails_factory(sv, how, target, st), budget=300)
            scase = cases.Case(stops, how, target)
            sst, sinfo = cases.compare_select(sv, scase, sast)
            if sst != st:
                scase, sast, sinfo = case, ast, info
        except Exception:  # noqa: BLE001
            scase, sast, sinfo = case, ast, info
        what = '%s: select(%r) on %s' % (st, sinfo['text'], trees.describe(scase.top_obj, 160))
        if st == 'DISAGREE':
            what += ' -> got %s, reference says %s' % (sinfo.get('got'), sinfo.get('exp'))
        elif st == 'RAISE':
            what += ' -> ' + sinfo.get('exc', '')
        res['viol'].append(scase.witness(sast, sinfo['text'], what, status=st,
                                         **{'class': sig(st, sels.shape(sast))}))

    if u['kind'] == 'rand':
        rng = random.Random(u['seed'])
        cfg = _cfg()
        for i in range(u['n']):
            forced = None
            if rng.random() < .08:
                root, forced = twin_case(rng)
            else:
                root, ws = trees.gen_tree(rng, max_nodes=rng.choice([6, 15, 40]),
                                          names=trees.NAMES + (['style', 'script', 'rt'] if rng.random() < .3 else []))
            if forced is None and rng.random() < .15:
                # attribute keys with upper-case letters: html5lib re-cases SVG attributes (viewBox), the bs4 API stores any key
                camel = E('svg', {'viewBox': rng.choice(['0 0 1 1', 'x', 'x y']), 'preserveAspectRatio': rng.choice(['x', 'X'])},
                          [T('text', 'x')] if rng.random() < .5 else [])
                host = [root] + [k for k in root.kids if isinstance(k, E) and k.name not in ('style', 'script', 'rt')]
                h = rng.choice(host)
                h.kids.insert(rng.randrange(len(h.kids) + 1), camel)
                if rng.random() < .5:
                    h.attrs['data-Key'] = rng.choice(['x', 'X y'])
                bump('mixed_case_attribute_keys')
            if forced is None and rng.random() < .12:
                # element names that differ only in ASCII case: one type in an HTML tree (only the API can make them), two in XML
                def recase(e):
                    for k in e.kids:
                        if isinstance(k, E):
                            if k.name in trees.NAMES and rng.random() < .35:
                                k.name = k.name.upper()
                            recase(k)
                recase(root)
                bump('mixed_case_element_names')
            if forced is None and rng.random() < .08:
                # an element called iframe in the XHTML namespace: only special when the *document* is HTML
                fr_ = E('iframe', {}, [E('p', {}, [E('b')])] if rng.random() < .7 else [E('p'), E('b')], prefix='h', ns=trees.NS_XHTML,
                        nsdecl={'h': trees.NS_XHTML})
                host_ = rng.choice([root] + [k for k in root.kids if isinstance(k, E) and k.name not in ('style', 'script', 'rt')])
                host_.kids.append(fr_)
                bump('xhtml_namespaced_iframe')
            tops, mode = trees.wrap(rng, root)
            how = rng.choice(HOWS)
            for j in range(4):
                r = rng.random()
                target = ['doc'] if r < .6 else (['el', rng.randrange(1000)] if r < .9 else ['detached', rng.randrange(1000)])
                case = cases.Case(tops, how, target)
                tcfg = sels.tune_to_tree(cfg, case.top_sn, rng)
                used_ = []
                for k3 in range(3):
                    if forced is None and rng.random() < .05:
                        ast, text = forgiving_form(rng, tcfg)
                        st, info = cases.compare_select(sv, case, ast, text, check_structure=False)
                        bump('forgiving_lists')
                        if st == 'RAISE' and 'SelectorSyntaxError' in info.get('exc', ''):
                            bump('forgiving_rejected')       # rejecting is C06's business, a wrong answer is ours
                            continue
                        handle(case, ast, st, info, tops)
                        continue
                    ast = forced if (forced is not None and k3 == 0) else sels.gen_list(rng, rng.choice([1, 2, 2, 3]), tcfg if k3 else cfg)
                    st, info = check_case(sv, case, ast, cases.respelled(rng, ast, .1), match_law=rng.random() < .15)
                    if info.get('match_law_checked'):
                        bump('match_law_checked')
                    handle(case, ast, st, info, tops)
                    used_.append(ast)
                if forced is None and used_ and rng.random() < .3:
                    # the caller edits the document and asks the same questions again on the same tree objects (same patterns, so the
                    # same cached compiled selectors): the answer is for the tree as it is now
                    import bs4 as _bs4
                    tags_ = [e for e in case.top_obj.descendants if isinstance(e, _bs4.Tag)]
                    if len(tags_) > 1:
                        a_, b_ = rng.sample(tags_, 2)
                        if rng.random() < .7:
                            a_.attrs, b_.attrs = b_.attrs, a_.attrs          # two elements trade their attributes (classes, ids, ...)
                        else:
                            a_.attrs = {}
                        case.top_sn, case.idmap = trees.snapshot(case.top_obj)
                        case.target_sn = case.idmap[id(case.target_obj)]
                        for ast in used_:
                            st, info = cases.compare_select(sv, case, ast, check_structure=False)
                            bump('asked_again_after_caller_edit')
                            if st in ('DISAGREE', 'RAISE'):
                                bump('VIOL:' + st)
                                if len(res['viol']) < 6:
                                    res['viol'].append(case.witness(ast, info['text'], '%s after a caller edit between two calls on the same tree: select(%r) on %s -> got %s, '
                                                                    'reference says %s %s' % (st, info['text'], trees.describe(case.top_obj, 200), info.get('got'), info.get('exp'),
                                                                                              info.get('exc', '')), status=st,
                                                                    **{'class': sig('after-edit', st, sels.shape(ast)), 'after_edit': True,
                                                                       'unit': dict(u)}))
                            else:
                                res['evals'] += 1
    else:
        sl = scope_selectors(u.get('tier', 'quick'))
        texts = [sels.render(a) for a in sl]
        for ti, root in enumerate(scope_trees(u['nodes'])):
            if ti % u['of'] != u['part']:
                continue
            for variant in (0, 1):
                tops = [root] if variant == 0 else [T('comment', 'c'), root, T('text', '\n')]
                case = cases.Case(tops, 'api', ['doc'])
                for ast, text in zip(sl, texts):
                    st, info = cases.compare_select(sv, case, ast, text)
                    handle(case, ast, st, info, tops)
                bump('scope_trees')
    res['sigs'] = list(sigs)
    return res


def replay(w):
    if w.get('after_edit'):
        # the witness needs the caller's edit between two calls: re-run the (deterministic) unit that produced it
        r = run_unit(w['unit'])
        v = [x for x in r['viol'] if x.get('after_edit')]
        return dict(w, status_now=v[0]['what']) if v else None
    import soupsieve as sv
    tops = cases.rebuild(w)
    case = cases.Case(tops, w['how'], w['target'], w.get('nsmap'))
    st, info = cases.compare_select(sv, case, w['ast'], w.get('selector'))
    if st in ('agree', 'unspec'):
        return None
    w = dict(w)
    w['observed'] = info
    w['status_now'] = st
    return w


def inconclusive(cn, tier):
    out = []
    need = 3000 if tier == 'quick' else 100000
    if cn.get('nontrivial', 0) < need:
        out.append('only %d non-trivial compared cases (need %d)' % (cn.get('nontrivial', 0), need))
    for h in set(HOWS):
        if cn.get('how:' + h, 0) == 0:
            out.append('materialiser %s never used' % h)
    if cn.get('scope_trees', 0) == 0:
        out.append('small scope not executed')
    return out


def extra_coverage(cn, notes, tier):
    return {'exhaustive': False,
            'exhaustive_subspace': 'every tree with <= %d nodes over %d element labels x 3 leaf kinds, bare and '
                                   'comment-wrapped, x %d selectors of the bounded grammar'
                                   % (3 if tier == 'quick' else 4, len(LABELS), len(scope_selectors(tier))),
            'unspecified_cases_not_compared': cn.get('unspecified', 0)}
