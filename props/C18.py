"""C18 - date, time and number values are validated and ordered as HTML prescribes.

Oracle: an independent calendar (vlib/refhtml.py: own ordinal arithmetic, no datetime, so years > 9999 work).
A bound S is *valid* iff <input type=T min=S> matches :in-range; ordering is observed through (min, max, value)
triples: exactly one of :in-range / :out-of-range when a valid bound exists, neither otherwise.
Known finding (week 53 accepted when 31 December lies in ISO week 1) is recognised by its defect-model switch.
"""
import random

from vlib import known, monitors, refhtml
from vlib.runner import sig

ID = 'C18'
LEVEL = 'exploration'
ANCHORS = ['Inputs.validate_day', 'Inputs.validate_week', 'Inputs.validate_month', 'Inputs.validate_year', 'Inputs.validate_hour',
           'Inputs.validate_minutes', 'Inputs.parse_value', 'CSSMatch.match_range']
RULE = ('validity, exhaustive: weeks {00,01,52,53,54} for every year 1..Y; dates: months 00-13 x days {00,01,28,29,30,31,32} for every '
        'year 1..2400 (quick: every 7th + all multiples of 100) and every multiple of 100 up to 12000; months 00-13; times 00-24 x '
        '00-60; datetime-local combinations; years with 4-20 digits; shapes off by one character; numbers in 40 spellings '
        '(Y=12000 in both tiers; quick sweeps dates on every 7th year and all multiples of 100).  Ordering: random (min, max, value) triples per type incl. equal bounds, '
        'missing/invalid parts and wrapped time ranges.  Non-trivial = a valid string, or an invalid one that differs from a '
        'valid one in one field; distinct = distinct (type, min, max, value).')
RULE += (' Round-4 additions: non-ASCII decimal digits at every digit position of every type; every observation also asks both pseudo-classes inside one call (6 combined selectors) and compares with the separate answers.')
ASSUMPTIONS = [
    'compared string shapes: YYYY-MM-DD, YYYY-MM, YYYY-Www, HH:MM, YYYY-MM-DDTHH:MM, optional-sign decimal numbers; seconds, '
    'fractions, the space separator and exponent notation are unspecified and not generated as *valid* candidates',
    'input elements are built through the bs4 API with lower- and mixed-case type keywords',
]

TYPES = ['date', 'month', 'week', 'time', 'datetime-local', 'number', 'range']


def _plan0(tier, seed):
    units = []
    Y = 12000
    step = 150 if tier == 'quick' else 200
    for lo in range(1, Y + 1, step):
        units.append({'kind': 'calendar', 'lo': lo, 'hi': min(Y + 1, lo + step), 'tier': tier})
    units.append({'kind': 'shapes', 'seed': seed})
    for i in range(31 if tier == 'quick' else 160):
        units.append({'kind': 'triples', 'seed': seed * 4001 + i, 'n': 2500 if tier == 'quick' else 12000})
    for i in range(16 if tier == 'quick' else 80):
        units.append({'kind': 'multi', 'seed': seed * 4001 + 900 + i, 'n': 250 if tier == 'quick' else 1200})
    return units


def plan(tier, seed):
    """... plus the shared 'lazy' units: iselect consumed step by step while the caller edits, between two items, exactly what
    this property's pseudo-classes depend on (vlib/lazy.py; the rest of the iteration must be what the selector designates on
    the tree as it is now)."""
    units = _plan0(tier, seed)
    themes = ['range']
    k = 16 if tier == 'quick' else 160
    units += [{'kind': 'coldfault', 'seed': seed * 2039 + i + 1, 'n': 400 if tier == 'quick' else 2000} for i in range(16 if tier == 'quick' else 160)]
    units += [{'kind': 'lazy', 'theme': themes[i % len(themes)], 'seed': seed * 65521 + i, 'n': 60 if tier == 'quick' else 200} for i in range(k)]
    return units


class Probe:
    def __init__(self, sv):
        import bs4
        self.soup = bs4.BeautifulSoup('', 'html.parser')
        self.form = self.soup.new_tag('form')
        self.soup.append(self.form)
        self.el = self.soup.new_tag('input')
        self.form.append(self.el)
        self.IN = sv.compile(':in-range')
        self.OUT = sv.compile(':out-of-range')
        # both questions about the same element inside one call (any per-call bookkeeping is shared between them)
        self.COMBOS = [(sv.compile(':is(:out-of-range, :in-range)'), lambda a, b: a or b),
                       (sv.compile(':out-of-range, :in-range'), lambda a, b: a or b),
                       (sv.compile('input:not(:out-of-range):in-range'), lambda a, b: a and not b),
                       (sv.compile('input:not(:in-range):out-of-range'), lambda a, b: b and not a),
                       (sv.compile(':not(:out-of-range):not(:in-range)'), lambda a, b: not a and not b),
                       (sv.compile(':in-range:in-range, :out-of-range:not(:in-range)'), lambda a, b: a or (b and not a))]
        self.n = 0

    def observe(self, t, mn, mx, v):
        e = self.el
        e.attrs.clear()
        e['type'] = t
        if mn is not None:
            e['min'] = mn
        if mx is not None:
            e['max'] = mx
        if v is not None:
            e['value'] = v
        s1, a = monitors.guarded_call(self.IN.match, e)
        s2, b = monitors.guarded_call(self.OUT.match, e)
        if s1 != 'ok' or s2 != 'ok':
            return 'raise:%s' % (type(a).__name__ if s1 != 'ok' else type(b).__name__)
        self.n += 1
        c, f = self.COMBOS[self.n % len(self.COMBOS)]
        s3, m = monitors.guarded_call(c.match, e)
        if s3 != 'ok' or m != f(a, b):
            return 'asked twice in one call (%s): %r, asked separately: in=%r out=%r' % (c.pattern, m, a, b)
        return (a, b)


def expect(t, mn, mx, v, week53=False):
    tl = refhtml.lower(t)
    o = refhtml.out_of_range(tl, mn, mx, v, week53)
    if o is None:
        return (False, False)
    return (not o, o)


def run_unit(u):
    import soupsieve as sv
    res = {'evals': 0, 'sigs': [], 'viol': [], 'samples': [], 'counters': {}}
    cn = res['counters']
    sigs = set()
    pr = Probe(sv)
    open_keys = known.open_keys(ID)

    def bump(k, n=1):
        cn[k] = cn.get(k, 0) + n

    def case(t, mn, mx, v, nontrivial=True, label='validity'):
        got = pr.observe(t, mn, mx, v)
        res['evals'] += 1
        bump(label)
        exp = expect(t, mn, mx, v)
        if got == exp:
            if nontrivial:
                bump('nontrivial')
                if len(sigs) < 60000:
                    sigs.add(sig(t, mn, mx, v))
            return
        key = None
        if 'week53-when-dec31-in-week1' in open_keys and got == expect(t, mn, mx, v, week53=True):
            key = 'week53-when-dec31-in-week1'
        if key:
            bump('known:' + key)
            if cn['known:' + key] <= 2:
                res['viol'].append({'what': '<input type=%s min=%r max=%r value=%r>: (:in-range, :out-of-range) = %r, calendar says %r' % (
                    t, mn, mx, v, got, exp), 'known_key': key, 'case': [t, mn, mx, v], 'selector': ':in-range', 'class': sig('known', key)})
            return
        bump('VIOL')
        if len([x for x in res['viol'] if 'known_key' not in x]) < 8:
            res['viol'].append({'what': '<input type=%s min=%r max=%r value=%r>: (:in-range, :out-of-range) = %r, calendar says %r' % (
                t, mn, mx, v, got, exp) + (' - asked after a call that met these strings for the first time in the process was cut short by an injected exception'
                                           if label == 'after_cold_fault' else ''), 'case': [t, mn, mx, v], 'selector': ':in-range',
                'class': sig(t, str(got)[:6], len(str(mn or '')), len(str(v or '')) > 0, (mn or '')[:1], label == 'after_cold_fault'),
                **({'cold_fault_unit': dict(u)} if label == 'after_cold_fault' else {})})

    if u['kind'] == 'coldfault':
        # A call that is cut short while it parses a value it has never seen must leave nothing behind: strings that are new to the
        # process (unique per iteration; the line count of the call is probed with *other* strings of the same shape, so that nothing
        # has parsed them before) are first met by a call that dies at a random line inside the library; the same strings asked again
        # in the ordinary way must be judged as the calendar / number rules say.
        import random as _random
        rng = _random.Random(u['seed'])

        class Injected(BaseException):
            pass

        def fresh(t, serial):
            if t == 'number':
                a = rng.randint(-50, 50)
                return ['%d.%d%d' % (a + d, u['seed'] % 1000003, serial) for d in rng.sample([-2, -1, 0, 1, 2, 3], 3)]
            if t == 'date':
                y = 1000 + (u['seed'] * 7919 + serial * 13) % 8000
                return ['%04d-%02d-%02d' % (y + d, rng.randint(1, 12), rng.randint(1, 28)) for d in rng.sample([-1, 0, 1, 2], 3)]
            if t == 'month':
                y = 1000 + (u['seed'] * 104729 + serial * 17) % 8000
                return ['%04d-%02d' % (y + d, rng.randint(1, 12)) for d in rng.sample([-1, 0, 1, 2], 3)]
            y = 1000 + (u['seed'] * 15485863 + serial * 19) % 8000
            return ['%04d-%02d-%02dT%02d:%02d' % (y + d, rng.randint(1, 12), rng.randint(1, 28), rng.randint(0, 23), rng.randint(0, 59)) for d in rng.sample([-1, 0, 1, 2], 3)]

        def setup(t, mn, mx, v):
            e = pr.el
            e.attrs.clear()
            e['type'] = t
            for k_, x in (('min', mn), ('max', mx), ('value', v)):
                if x is not None:
                    e[k_] = x
            return e
        for i in range(u['n']):
            t = rng.choice(['number', 'date', 'month', 'datetime-local'])
            shape = rng.choice(['all', 'min', 'max'])

            def pick(vals):
                mn, mx, v = vals
                return (mn if shape in ('all', 'min') else None, mx if shape in ('all', 'max') else None, v)
            probe_vals = pick(fresh(t, 2 * i))
            c = rng.choice([pr.IN, pr.OUT])
            e = setup(t, *probe_vals)
            with monitors.Failpoint(None) as probe:
                monitors.guarded_call(c.match, e)
            vals = pick(fresh(t, 2 * i + 1))
            e = setup(t, *vals)
            fired = None
            try:
                with monitors.cpu_budget(20), monitors.Failpoint(rng.randint(1, max(1, probe.n)), rng.choice([Injected, KeyboardInterrupt, MemoryError, RecursionError])) as fp:
                    c.match(e)
            except BaseException as ex:  # noqa: BLE001 - the injected fault
                if isinstance(ex, monitors.BudgetExceeded):
                    continue
                fired = fp.fired
            bump('cold_faults' if fired else 'cold_fault_not_fired')
            if fired:
                bump('cold_site:' + fired.rsplit(':', 1)[0])
            case(t, vals[0], vals[1], vals[2], label='after_cold_fault')
        res['sigs'] = list(sigs)
        return res
    if u['kind'] == 'calendar':
        quick = u['tier'] == 'quick'
        for y in range(u['lo'], u['hi']):
            ys = '%04d' % y
            for w in (0, 1, 52, 53, 54):
                case('week', '%s-W%02d' % (ys, w), None, None)
            if quick and y % 7 and y % 100 and y > 40:
                continue
            if y <= 2400 or y % 100 == 0:
                for m in range(0, 14):
                    for d in (0, 1, 28, 29, 30, 31, 32):
                        case('date', '%s-%02d-%02d' % (ys, m, d), None, None, nontrivial=1 <= m <= 12)
                    case('month', None, '%s-%02d' % (ys, m), None)
                case('datetime-local', '%s-02-29T23:59' % ys, None, None)
                case('datetime-local', '%s-02-28T24:00' % ys, None, None)
        res['samples'].append({'years': [u['lo'], u['hi'] - 1], 'example': '<input type=week min=%04d-W53>' % u['lo'],
                               'valid_by_calendar': refhtml.valid('week', '%04d-W53' % u['lo'])})
    elif u['kind'] == 'shapes':
        rng = random.Random(u['seed'])
        for h in range(0, 26):
            for m in range(0, 62):
                case('time', '%02d:%02d' % (h, m), None, None)
                case('datetime-local', None, '2020-06-15T%02d:%02d' % (h, m), None, nontrivial=h < 24)
        years = ['0', '1', '01', '001', '0001', '0000', '00000', '9999', '10000', '99999', '123456789', '1' * 12, '9' * 20, '00012345',
                 '0999', '1000', '2019', '2020', '2400', '12000']
        for ys in years:
            y = int(ys)
            for t, rest in (('week', '-W01'), ('week', '-W52'), ('week', '-W53'), ('date', '-12-31'), ('date', '-02-29'), ('month', '-12'),
                            ('month', '-00'), ('datetime-local', '-01-01T00:00'), ('datetime-local', '-02-29T12:30')):
                case(t, ys + rest, None, None, label='years')
                case(t, None, ys + rest, ys + rest, label='years')
        # digits that are not ASCII digits are never part of a valid value, whatever the position
        for t, g in (('date', '2020-02-29'), ('month', '2020-12'), ('week', '2020-W10'), ('time', '23:59'), ('datetime-local', '2020-02-29T23:59'),
                     ('number', '12.5'), ('range', '3')):
            for zero in (0x0660, 0xFF10, 0x0966, 0x1D7CE):
                allu = ''.join(chr(zero + ord(c) - 48) if c.isdigit() else c for c in g)
                cands = [allu] + [g[:i] + chr(zero + ord(g[i]) - 48) + g[i + 1:] for i in range(len(g)) if g[i].isdigit()]
                for cand in cands:
                    case(t, cand, None, None, label='unicode_digits')
                    case(t, None, cand, g, label='unicode_digits')
                    case(t, g, None, cand, label='unicode_digits')
        # a type keyword that is "week" only under Unicode case folding (KELVIN SIGN): HTML keywords are ASCII case-insensitive
        for tk in ('wee\u212a', 'WEE\u212a', 'wee\u212A'.upper()):
            case(tk, '2020-W10', None, None, nontrivial=False, label='non_ascii_type_keyword')
            case(tk, '2020-W10', '2020-W20', '2020-W30', nontrivial=False, label='non_ascii_type_keyword')
            case(tk, None, '2020-W20', '2020-W30', nontrivial=False, label='non_ascii_type_keyword')
        good = {'date': '2020-02-29', 'month': '2020-12', 'week': '2020-W53', 'time': '23:59', 'datetime-local': '2020-02-29T23:59',
                'number': '-12.5', 'range': '3'}
        junk = ['', ' ', 'x', '-', ':', 'T', 'W', '0', '/', '.', '+', 'Z', '\n']
        for t, g in good.items():
            case(t, g, None, None, label='shapes')
            for i in range(len(g) + 1):
                for j in junk:
                    for cand in (g[:i] + j + g[i:], g[:i] + j + g[i + 1:], g[:i] + g[i + 1:]):
                        if refhtml.valid(t, cand) and cand != g and not _enumerated(t, cand):
                            continue                      # a shape outside the enumerated ones that happens to be valid: skip
                        case(t, cand, None, None, label='shapes')
                        case(t.upper() if i % 2 else t.capitalize(), None, cand, None, label='shapes')
        nums = ['0', '-0', '1', '-1', '1.5', '-1.5', '.5', '-.5', '0.0', '00', '007', '1.', '.', '-', '+1', '1e3', '1E3', 'NaN', 'inf', ' 1', '1 ',
                '1,5', '1_0', '0x10', '١', '１', '1.5.5', '--1', '-+1', '1-', '1' * 400, '0.' + '0' * 400 + '1', '-' + '9' * 310, '9' * 310 + '.5',
                '', '5', '10', '2.50', '-0.5', '3']
        # valid strings longer than the interpreter's int<->str digit limit (4300): still numbers / dates
        long_year = '1' + '0' * 4295
        for t, lo_, hi_ in (('number', '1', '9' * 5000), ('number', '0.' + '0' * 5000 + '1', '5'), ('range', '-' + '9' * 4400 + '.5', '0'),
                            ('date', '2020-01-01', long_year + '-01-01'), ('month', '2020-01', long_year + '-12'),
                            ('datetime-local', '2020-01-01T00:00', long_year + '-01-01T10:00'), ('week', '2020-W01', long_year + '-W01')):
            case(t, lo_, hi_, lo_, label='very_long_values')
            case(t, lo_, None, hi_, label='very_long_values')
            case(t, None, lo_, hi_, label='very_long_values')
            case(t, hi_, None, lo_, label='very_long_values')
            case(t, lo_, hi_, hi_, label='very_long_values')
        for a in nums:
            for t in ('number', 'range'):
                case(t, a, None, None, label='numbers')
                case(t, a, None, '3', label='numbers')
                case(t, None, a, '3', label='numbers')
                case(t, '2', '4', a, label='numbers')
    elif u['kind'] == 'multi':
        # one select() over a form holding several inputs of different types that share the same attribute strings
        import bs4
        rng = random.Random(u['seed'])
        shared = ['2020-06', '2020-06-15', '2020-W10', '10:30', '5', '2020-06-15T10:30', '2020-12', '0001-01', '12', '2020-W53', '.5', '23:59',
                  '2021-01', '2020-02-29', '10000-01', '7']
        for _ in range(u['n']):
            soup = bs4.BeautifulSoup('', 'html.parser')
            form = soup.new_tag('form')
            soup.append(form)
            els = []
            pool = rng.sample(shared, 3)
            for _i in range(rng.randint(2, 7)):
                e = soup.new_tag('input')
                e['type'] = rng.choice(TYPES)
                for a in ('min', 'max', 'value'):
                    if rng.random() < .75:
                        e[a] = rng.choice(pool)
                form.append(e)
                els.append(e)
            st1, gin = monitors.guarded_call(sv.select, ':in-range', soup)
            st2, gout = monitors.guarded_call(sv.select, ':out-of-range', soup)
            res['evals'] += 1
            bump('multi_input_documents')
            if st1 != 'ok' or st2 != 'ok':
                bump('VIOL')
                res['viol'].append({'what': 'select(:in-range/:out-of-range) raised on %s' % soup.decode()[:300], 'selector': ':in-range', 'class': sig('multi-raise')})
                continue
            for pos, e in enumerate(els):
                exp = expect(e['type'], e.get('min'), e.get('max'), e.get('value'))
                got = (any(x is e for x in gin), any(x is e for x in gout))
                if got == exp:
                    continue
                if 'week53-when-dec31-in-week1' in open_keys and got == expect(e['type'], e.get('min'), e.get('max'), e.get('value'), week53=True):
                    bump('known:week53-when-dec31-in-week1')
                    continue
                bump('VIOL')
                if len([x for x in res['viol'] if 'known_key' not in x]) < 8:
                    res['viol'].append({'what': 'in one select() over %s: input #%d %r is (in, out) = %r, calendar says %r' % (
                        soup.decode()[:400], pos, dict(e.attrs), got, exp), 'selector': ':in-range', 'markup': soup.decode(),
                        'class': sig('multi', e['type'])})
                break
        res['samples'].append({'multi_input_document': soup.decode()[:300]})
    else:
        rng = random.Random(u['seed'])
        pools = {
            'date': ['2020-02-29', '2020-02-28', '2020-03-01', '2019-12-31', '2020-01-01', '0001-01-01', '9999-12-31', '10000-01-01', '12000-06-15',
                     '2019-02-29', '2020-13-01', 'x', '', None],
            'month': ['2020-01', '2020-12', '2019-12', '2021-01', '0001-01', '10000-01', '2020-00', '2020-13', 'x', '', None],
            'week': ['2020-W01', '2020-W52', '2020-W53', '2021-W01', '2019-W52', '2015-W53', '0001-W01', '10000-W01', '2021-W53', '2020-W00', 'x', '', None],
            'time': ['00:00', '00:01', '12:00', '11:59', '12:01', '23:59', '24:00', '08:30', '20:15', 'x', '', None],
            'datetime-local': ['2020-02-29T12:00', '2020-02-29T11:59', '2020-03-01T00:00', '2019-12-31T23:59', '10000-01-01T00:00', '2020-02-30T00:00',
                               'x', '', None],
            'number': ['0', '1', '-1', '1.5', '-1.5', '.5', '10', '9', '100', '-100', '2.50', '2.5', '007', '7', 'x', '', None],
        }
        pools['range'] = pools['number']
        for _ in range(u['n']):
            t = rng.choice(TYPES)
            tt = rng.choice([t, t, t.upper(), t.capitalize()])
            mn, mx, v = (rng.choice(pools[t]) for _ in range(3))
            if rng.random() < .15:
                mx = mn
            if rng.random() < .1:
                v = mn
            case(tt, mn, mx, v, nontrivial=bool(refhtml.valid(t, mn) or refhtml.valid(t, mx)), label='triples')
        res['samples'].append({'type': tt, 'min': mn, 'max': mx, 'value': v, 'expected(in,out)': expect(tt, mn, mx, v)})
    res['sigs'] = list(sigs)
    return res


def _enumerated(t, s):
    import re
    pats = {'date': r'[0-9]{4,}-[0-9]{2}-[0-9]{2}', 'month': r'[0-9]{4,}-[0-9]{2}', 'week': r'[0-9]{4,}-W[0-9]{2}', 'time': r'[0-9]{2}:[0-9]{2}',
            'datetime-local': r'[0-9]{4,}-[0-9]{2}-[0-9]{2}T[0-9]{2}:[0-9]{2}', 'number': r'-?([0-9]+(\.[0-9]+)?|\.[0-9]+)',
            'range': r'-?([0-9]+(\.[0-9]+)?|\.[0-9]+)'}
    return re.fullmatch(pats[t], s) is not None


def classify(w):
    return w.get('known_key')


def replay(w):
    if w.get('cold_fault_unit'):
        r = run_unit(w['cold_fault_unit'])       # deterministic in its seed; the fault has to come first
        v = [x for x in r['viol'] if x.get('cold_fault_unit')]
        return dict(w, status_now=v[0]['what']) if v else None
    import soupsieve as sv
    if 'markup' in w:
        import bs4
        soup = bs4.BeautifulSoup(w['markup'], 'html.parser')
        gin, gout = sv.select(':in-range', soup), sv.select(':out-of-range', soup)
        for e in soup.find_all('input'):
            exp = expect(e.get('type', ''), e.get('min'), e.get('max'), e.get('value'))
            if (any(x is e for x in gin), any(x is e for x in gout)) != exp:
                return dict(w, status_now='still differs for %r' % dict(e.attrs))
        return None
    pr = Probe(sv)
    t, mn, mx, v = w['case']
    got = pr.observe(t, mn, mx, v)
    exp = expect(t, mn, mx, v)
    if got == exp:
        return None
    return dict(w, status_now='observed %r, calendar says %r' % (got, exp))


def inconclusive(cn, tier):
    out = []
    if cn.get('validity', 0) < (40000 if tier == 'quick' else 300000):
        out.append('calendar sweep too small: %d' % cn.get('validity', 0))
    for k in ('shapes', 'numbers', 'years', 'triples'):
        if cn.get(k, 0) < 300:
            out.append('%s workload too small: %d' % (k, cn.get(k, 0)))
    return out


def extra_coverage(cn, notes, tier):
    return {'exhaustive': True, 'exhaustive_subspace': 'week validity for every year 1..%d; date/month validity on the swept years; '
                                                       'all times 00-25 x 00-61 (bounded spaces only)' % 12000}
