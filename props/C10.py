"""C10 - escape() output always parses back to the original identifier.

Oracle: round trip through API-built elements.  For a string s (NUL -> U+FFFD in the expected value):
'#'+escape(s), '.'+escape(s), '[a='+escape(s)+']' and 'p#'+escape(s)+' > span.zq9-span' must compile and select exactly
the elements whose id / class / attribute equals the value - among decoys (neighbours differing in one character,
the escaped text itself, prefixes, case variants).  Exhaustive over single code points in four positions, plus
random strings over a hostile alphabet.
"""
import random

from vlib import monitors
from vlib.runner import sig

ID = 'C10'
LEVEL = 'exploration'
ANCHORS = ['escape', 'css_unescape', 'CSSParser.parse_class_id', 'CSSParser.parse_attribute_selector', 'CSSParser.__init__']
RULE = ('single code points c in four positions (c, "-"+c, "a"+c+"b", "item"+c): quick = all of U+0000-U+2FFF, all surrogates '
        'sampled every 8th, 64 code points around every plane boundary and 8000 sampled others; thorough = every code '
        'point U+0000-U+10FFFF; plus random strings of length <= 12 over a hostile alphabet (controls, C1, quotes, '
        'backslash, digits, dashes, blanks, newlines, astral, surrogates, NUL).  Four selector forms per string, on a '
        'document holding the target and decoys.  Non-trivial = the escaped text differs from the string or the string has '
        'a non-alphanumeric character; distinct = distinct strings.')
ASSUMPTIONS = [
    'the expected identifier value is s with NUL replaced by U+FFFD (statement)',
    'elements are built through the bs4 API (new_tag + attrs), so any string can be an id/class/attribute value; class is '
    'stored as a one-item list so that whitespace inside s does not split it',
]

HOSTILE = ['\x00', '\x01', '\x1f', '\x7f', '\x80', '\x85', '\x9f', '\xa0', '"', "'", '\\', '-', '--', '_', '0', '9', 'a', 'f', 'g', 'Z', ' ', '\t', '\n',
           '\r', '\f', '\r\n', '.', '#', ':', '[', ']', '(', ')', ',', '>', '+', '~', '*', '|', '=', '/', '/*', '*/', '!', '$', '^', '&', '@',
           'é', ' ', '　', '﻿', '�', '\U0001f600', '\U0010ffff', '\ud800', '\udfff', '￿', '%', ';', '{', '}', '<', '?', 'item', 'ab', 'x1', 'B']


def plan(tier, seed):
    units = []
    if tier == 'quick':
        cps = list(range(0, 0x3000)) + list(range(0xD800, 0xE000, 8))
        for plane in range(0, 17):
            base = plane * 0x10000
            cps += [c for c in range(base - 32, base + 32) if 0 <= c <= 0x10FFFF]
        cps += list(range(0x10FFFF - 64, 0x10FFFF + 1)) + list(range(0xFFF0, 0x10010))
        rng = random.Random(seed)
        cps += [rng.randrange(0x3000, 0x110000) for _ in range(8000)]
        cps = sorted(set(cps))
        chunk = 140
        for i in range(0, len(cps), chunk):
            units.append({'kind': 'cps', 'cps': cps[i:i + chunk]})
        nrand, per = 32, 110
    else:
        step = 0x10FFFF // 1600 + 1
        for lo in range(0, 0x110000, step):
            units.append({'kind': 'range', 'lo': lo, 'hi': min(0x110000, lo + step)})
        nrand, per = 160, 1200
    for i in range(nrand):
        units.append({'kind': 'rand', 'seed': seed * 104729 + i, 'n': per})
    return units


class Doc:
    """One reusable document: target elements get their id/class/attr rewritten per string."""

    def __init__(self):
        import bs4
        self.bs4 = bs4
        self.soup = bs4.BeautifulSoup('', 'html.parser')
        root = self.soup.new_tag('div')
        self.soup.append(root)
        self.root = root
        self.p = self.soup.new_tag('p')
        self.span = self.soup.new_tag('span')
        self.span['class'] = ['zq9-span']
        self.p.append(self.span)
        root.append(self.p)
        self.decoys = [self.soup.new_tag('p') for _ in range(8)]
        for d in self.decoys:
            sp = self.soup.new_tag('span')
            sp['class'] = ['zq9-span']
            d.append(sp)
            root.append(d)
        self.tail = self.soup.new_tag('b')
        root.append(self.tail)
        # a second target whose class attribute is a plain string (XML documents, hand-assigned values)
        self.q = self.soup.new_tag('q')
        root.append(self.q)
        # a third target whose attribute keys are not lower-case (only the API can store them; HTML names are case-insensitive)
        self.r = self.soup.new_tag('i')
        root.append(self.r)
        # a decoy whose attribute keys are `class` / `id` only under full Unicode case folding (ASCII case-insensitivity is the rule)
        self.look = self.soup.new_tag('u')
        root.append(self.look)

    def set(self, value, escaped):
        def put(el, v):
            el['id'] = v
            el['class'] = [v]
            el['a'] = v
        put(self.p, value)
        self.q.attrs.clear()
        self.strclass = not any(c in ' \t\n\r\f' for c in value) and value != ''
        if self.strclass:
            self.q['class'] = value                  # one class token by CSS rules (no CSS white space inside)
        self.look.attrs.clear()
        self.look['cla\u017fs'] = [value]
        self.look['CLA\u017fS'] = value
        self.look['\u0131d'] = value
        self.look['\u212a'] = value
        self.r.attrs.clear()
        self.r['ID'] = value
        self.r['Class'] = [value]
        self.r['A'] = value
        alts = [value + 'x', 'x' + value, value[:-1], value[1:], escaped if escaped != value else value + '\\', value.swapcase(),
                value + '\n', '\n' + value]
        for d, v in zip(self.decoys, alts):
            put(d, v if v != value else v + '~')


def check_string(sv, doc, s):
    """Returns None or a description of the failure."""
    st, esc = monitors.guarded_call(sv.escape, s, budget=5.0)
    if st != 'ok':
        return 'escape(%s) %s' % (ascii(s), 'raised %r' % esc if st == 'raise' else 'exceeded its CPU budget')
    if not isinstance(esc, str):
        return 'escape(%s) returned %r' % (ascii(s), esc)
    value = s.replace('\x00', '�')
    doc.set(value, esc)
    forms = [('[type=' + esc + ']', []), ('#' + esc, [doc.p, doc.r]), ('.' + esc, [doc.p] + ([doc.q] if doc.strclass else []) + [doc.r]),
             ('[a=' + esc + ']', [doc.p, doc.r]), ('p#' + esc + ' > span.zq9-span', [doc.span]),
             ('b, .' + esc + ' span', [doc.span, doc.tail])]
    for text, want in forms:
        st, got = monitors.guarded_call(sv.select, text, doc.soup, budget=5.0)
        if st != 'ok':
            return '%s built from escape(%s)=%s %s' % (ascii(text), ascii(s), ascii(esc),
                                                       'raised %s: %s' % (type(got).__name__, str(got)[:80]) if st == 'raise' else 'exceeded its CPU budget')
        if [id(x) for x in got] != [id(x) for x in want]:
            return '%s built from escape(%s)=%s selected %d element(s) %s instead of exactly the target' % (
                ascii(text), ascii(s), ascii(esc), len(got), [(x.name, ascii(x.get('id'))) for x in got][:4])
    return None


def run_unit(u):
    import soupsieve as sv
    res = {'evals': 0, 'sigs': [], 'viol': [], 'samples': [], 'counters': {}}
    cn = res['counters']
    doc = Doc()
    sigs = set()

    def handle(s, label):
        why = check_string(sv, doc, s)
        res['evals'] += 1
        cn[label] = cn.get(label, 0) + 1
        if why is None:
            if not s.isalnum() or not s.isascii():
                sigs.add(sig(s))
                cn['nontrivial'] = cn.get('nontrivial', 0) + 1
            return
        cn['VIOL'] = cn.get('VIOL', 0) + 1
        if len(res['viol']) < 10:
            # shrink random strings by deleting characters
            t = s
            if label == 'random':
                i = 0
                while i < len(t) and len(t) > 1:
                    cand = t[:i] + t[i + 1:]
                    if cand and check_string(sv, doc, cand) is not None:
                        t = cand
                    else:
                        i += 1
                why = check_string(sv, doc, t) or why
            cp = ord(t[0]) if len(t) == 1 else None
            cls = 'cp-block-%04x' % (cp >> 7) if cp is not None else sig(why.split(' built ')[0][:30])
            res['viol'].append({'what': why, 'string': [ord(c) for c in t], 'selector': ascii(t), 'class': cls})

    if u['kind'] in ('cps', 'range'):
        cps = u['cps'] if u['kind'] == 'cps' else range(u['lo'], u['hi'])
        for cp in cps:
            c = chr(cp)
            handle(c, 'first')
            handle('-' + c, 'after_dash')
            handle('a' + c + 'b', 'interior')
            handle('item' + c, 'last')
        if cps:
            res['samples'].append({'code_points': ['U+%04X' % c for c in list(cps)[:3]], 'positions': ['c', '-c', 'acb', 'itemc'],
                                   'escape_of_first': ascii(sv.escape(chr(list(cps)[0])))})
    else:
        rng = random.Random(u['seed'])
        for _ in range(u['n']):
            s = ''.join(rng.choice(HOSTILE) if rng.random() < .8 else chr(rng.randrange(0x110000))
                        for _ in range(rng.randint(1, 12)))
            handle(s, 'random')
        res['samples'].append({'random_string': ascii(s), 'escaped': ascii(sv.escape(s))})
    res['sigs'] = list(sigs)
    return res


def replay(w):
    import soupsieve as sv
    s = ''.join(chr(c) for c in w['string'])
    why = check_string(sv, Doc(), s)
    return dict(w, status_now=why) if why else None


def inconclusive(cn, tier):
    out = []
    for k, need in (('first', 8000), ('after_dash', 8000), ('interior', 8000), ('last', 8000), ('random', 3000)):
        if cn.get(k, 0) < need:
            out.append('%s position: only %d strings' % (k, cn.get(k, 0)))
    return out


def extra_coverage(cn, notes, tier):
    return {'exhaustive': tier == 'thorough',
            'exhaustive_subspace': 'every code point U+0000-U+10FFFF in four positions x five selector forms' if tier == 'thorough'
            else 'all of U+0000-U+2FFF in four positions (bounded sub-space); the rest sampled'}
