"""Reference definitions for the HTML state pseudo-classes (C17) and an independent calendar (C18).

Works on the bs4 tree through public attributes only (name, attrs, contents, parent).  Defect-model switches
(known findings, see KNOWN_FINDINGS.txt) are explicit parameters; everything is off by default.
"""
import re

import bs4

from .refsel import lower

RANGE_TYPES = ('date', 'month', 'week', 'time', 'datetime-local', 'number', 'range')


# ---------------------------------------------------------------------------------------------------------
# calendar (own ordinal arithmetic, no datetime, so years > 9999 work)

def leap(y):
    return y % 4 == 0 and (y % 100 != 0 or y % 400 == 0)


def dim(y, m):
    return [31, 29 if leap(y) else 28, 31, 30, 31, 30, 31, 31, 30, 31, 30, 31][m - 1]


def dow_jan1(y):
    """0 = Monday ... 6 = Sunday, proleptic Gregorian (0001-01-01 is a Monday)."""
    y1 = y - 1
    return (y1 * 365 + y1 // 4 - y1 // 100 + y1 // 400) % 7


def weeks(y):
    d = dow_jan1(y)
    return 53 if d == 3 or (d == 2 and leap(y)) else 52


def dec31_in_week1(y):
    """31 December belongs to ISO week 1 of the next year iff it is a Monday, Tuesday or Wednesday."""
    d = (dow_jan1(y) + (365 if leap(y) else 364)) % 7
    return d in (0, 1, 2)


def valid(t, s, week53=False):
    """Is s a valid value string for input type t (the shapes the statement enumerates)?  None = unspecified shape."""
    if s is None:
        return False
    if not isinstance(s, str):
        return None
    if t in ('number', 'range'):
        return re.fullmatch(r'-?([0-9]+(\.[0-9]+)?|\.[0-9]+)', s) is not None
    if t == 'time':
        m = re.fullmatch(r'([0-9]{2}):([0-9]{2})', s)
        return bool(m) and int(m[1]) <= 23 and int(m[2]) <= 59
    if t == 'month':
        m = re.fullmatch(r'([0-9]{4,})-([0-9]{2})', s)
        return bool(m) and int(m[1]) >= 1 and 1 <= int(m[2]) <= 12
    if t == 'week':
        m = re.fullmatch(r'([0-9]{4,})-W([0-9]{2})', s)
        if not m or int(m[1]) < 1:
            return False
        y, w = int(m[1]), int(m[2])
        mx = weeks(y)
        if week53 and dec31_in_week1(y):
            mx = 53
        return 1 <= w <= mx
    if t == 'date':
        m = re.fullmatch(r'([0-9]{4,})-([0-9]{2})-([0-9]{2})', s)
        return bool(m) and int(m[1]) >= 1 and 1 <= int(m[2]) <= 12 and 1 <= int(m[3]) <= dim(int(m[1]), int(m[2]))
    if t == 'datetime-local':
        m = re.fullmatch(r'(.*)T(.*)', s, re.S)
        return bool(m) and bool(valid('date', m[1])) and bool(valid('time', m[2]))
    return False


def key(t, s):
    """Comparable value of a *valid* string."""
    if t in ('number', 'range'):
        return DecimalKey(s)
    return tuple(int(x) for x in re.findall(r'[0-9]+', s))


class DecimalKey:
    """Exact order of decimal strings [-]digits[.digits] / [-].digits without converting them (no digit limit)."""

    def __init__(self, s):
        neg = s.startswith('-')
        body = s[1:] if neg else s
        ip, _, fp = body.partition('.')
        ip = ip.lstrip('0')
        fp = fp.rstrip('0')
        self.zero = not ip and not fp
        self.neg = neg and not self.zero
        self.mag = (len(ip), ip, fp)

    def _k(self):
        return (0, ()) if self.zero else ((-1, self.mag) if self.neg else (1, self.mag))

    def __eq__(self, o):
        return self._k() == o._k()

    def __lt__(self, o):
        a, b = self._k(), o._k()
        if a[0] != b[0]:
            return a[0] < b[0]
        if a[0] == 0:
            return False
        return a[1] < b[1] if a[0] > 0 else a[1] > b[1]

    def __gt__(self, o):
        return o.__lt__(self)


def out_of_range(t, mn, mx, value, week53=False):
    """True / False for an input whose type is a range type; None when no valid bound exists (neither in nor out)."""
    vmn, vmx = valid(t, mn, week53), valid(t, mx, week53)
    if not vmn and not vmx:
        return None
    if not valid(t, value, week53):
        return False
    v = key(t, value)
    lo = key(t, mn) if vmn else None
    hi = key(t, mx) if vmx else None
    if t == 'time' and lo is not None and hi is not None and lo > hi:
        return hi < v < lo
    if lo is not None and v < lo:
        return True
    if hi is not None and v > hi:
        return True
    return False


# ---------------------------------------------------------------------------------------------------------
# tree helpers (same-document navigation: an iframe's content is its own document)

_XML = [False]


def set_xml(flag):
    """XML documents (XHTML): element and attribute names are case-sensitive; HTML documents: ASCII case-insensitive."""
    _XML[0] = bool(flag)


def name(e):
    return e.name if _XML[0] else lower(e.name)


def attr(e, a):
    for k, v in e.attrs.items():
        if (str(k) if _XML[0] else lower(str(k))) == a:
            return v
    return None


def has(e, a):
    return attr(e, a) is not None


def typ(e):
    v = attr(e, 'type')
    return lower(v) if isinstance(v, str) else ''


def par(e):
    p = e.parent
    if p is None or isinstance(p, bs4.BeautifulSoup) or name(p) == 'iframe':
        return None
    return p


def owner(e):
    p = par(e)
    while p is not None:
        if name(p) == 'form':
            return p
        p = par(p)
    return None


def docroot(e):
    while par(e) is not None:
        e = par(e)
    return e


def desc_same_doc(e):
    for c in e.contents:
        if isinstance(c, bs4.Tag):
            yield c
            if name(c) != 'iframe':
                yield from desc_same_doc(c)


def expected_default(els, nested_bail=False):
    """ids of elements that are :default beyond :checked: the first submit button/input of each form."""
    exp = set()
    for f in els:
        if name(f) != 'form':
            continue
        for c in desc_same_doc(f):
            if nested_bail and name(c) == 'form':
                break                              # defect model: the scan stops at the first nested form
            if name(c) in ('input', 'button') and typ(c) == 'submit':
                if nested_bail or owner(c) is f:
                    if owner(c) is f:
                        exp.add(id(c))
                    break
    return exp


def expected_indeterminate(els):
    exp = set()
    for e in els:
        n = name(e)
        if n == 'progress' and not has(e, 'value'):
            exp.add(id(e))
        elif n == 'input' and typ(e) == 'checkbox' and has(e, 'indeterminate'):
            exp.add(id(e))
        elif n == 'input' and typ(e) == 'radio' and not has(e, 'checked'):
            nm = attr(e, 'name')
            if not nm:
                exp.add(id(e))
                continue
            o = owner(e)
            scope = o if o is not None else docroot(e)
            pool = list(desc_same_doc(scope)) + ([scope] if scope is not o else [])
            grp = [c for c in pool if name(c) == 'input' and typ(c) == 'radio' and attr(c, 'name') == nm and owner(c) is o]
            if not any(has(c, 'checked') for c in grp):
                exp.add(id(e))
    return exp
