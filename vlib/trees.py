"""Abstract trees, generators, materialisers (bs4 API / parsers) and the snapshotter.

The oracle never looks at the recipe: parsers normalise, so a *snapshot* is taken from the resulting bs4 tree
through bs4's public attributes only and the reference runs on that snapshot.
"""
import html as _html

import bs4
from bs4 import (BeautifulSoup, CData, Comment, Declaration, Doctype, NavigableString, ProcessingInstruction)

NAMES = ['a', 'b', 'p', 'div', 'span', 'li']
IDS = ['x', 'y', 'X', 'i1', 'i2']
CLASSES = ['x', 'y', 'X', 'k', 'x-y']
VALS = ['', 'x', 'X', 'x y', 'x-y', 'xy', 'en', 'en-US', ' x', 'é', 'yx', 'x\n', 'x-', '-x', 'y x', 'x\ty', 'y\nx', 'x\ny',
        'x-\ny', 'y\n x']
ATTRS = ['title', 'data-x', 'lang', 'href']

NS_XHTML = 'http://www.w3.org/1999/xhtml'
NS_SVG = 'http://www.w3.org/2000/svg'
NS_MATHML = 'http://www.w3.org/1998/Math/MathML'
NS_XLINK = 'http://www.w3.org/1999/xlink'
NS_XML = 'http://www.w3.org/XML/1998/namespace'


class E:
    """Element recipe."""

    __slots__ = ('name', 'attrs', 'kids', 'prefix', 'ns', 'nsdecl')

    def __init__(self, name, attrs=None, kids=None, prefix=None, ns=None, nsdecl=None):
        self.name = name
        self.attrs = attrs if attrs is not None else {}     # key: str or (prefix, local, ns)
        self.kids = kids if kids is not None else []
        self.prefix = prefix
        self.ns = ns
        self.nsdecl = nsdecl or {}                          # prefix -> uri declared on this element (XML only)

    def to_json(self):
        return {'e': self.name, 'a': [[k if isinstance(k, str) else list(k), v] for k, v in self.attrs.items()],
                'k': [c.to_json() for c in self.kids], 'p': self.prefix, 'ns': self.ns, 'd': self.nsdecl}


class T:
    """Non-element recipe: kind in text|comment|cdata|pi|doctype|decl."""

    __slots__ = ('kind', 'text')

    def __init__(self, kind, text):
        self.kind = kind
        self.text = text

    def to_json(self):
        return {'t': self.kind, 's': self.text}


def from_json(j):
    if 't' in j:
        return T(j['t'], j['s'])
    return E(j['e'], {(k if isinstance(k, str) else tuple(k)): v for k, v in j['a']}, [from_json(c) for c in j['k']],
             j.get('p'), j.get('ns'), j.get('d'))


# ---------------------------------------------------------------------------------------------------------
# generic generator

def gen_attrs(rng, names=ATTRS, p_id=.4, p_class=.5, p_attr=.25):
    a = {}
    if rng.random() < p_id:
        a['id'] = rng.choice(IDS)
    if rng.random() < p_class:
        a['class'] = rng.sample(CLASSES, rng.randint(1, 3))
    for k in names:
        if rng.random() < p_attr:
            a[k] = rng.choice(VALS)
    return a


def gen_filler(rng, ws_mode, kinds=('text', 'blank', 'comment', 'cdata', 'pi')):
    if ws_mode == 'none':
        return []
    if ws_mode == 'blank':
        return [T('text', rng.choice([' ', '\n', '\n  ', '\t']))] if rng.random() < .8 else []
    out = []
    for _ in range(rng.randint(0, 2)):
        k = rng.choice(kinds)
        if k == 'text':
            out.append(T('text', rng.choice(['t', 'ab', ' z ', 'x', 'x y'])))
        elif k == 'blank':
            out.append(T('text', rng.choice([' ', '\n', '\f', '\r\n', '\t'])))
        elif k == 'comment':
            out.append(T('comment', rng.choice(['c', ' ', 'x'])))
        elif k == 'cdata':
            out.append(T('cdata', rng.choice(['d', ' '])))
        elif k == 'pi':
            out.append(T('pi', 'pi x'))
    return out


def gen_tree(rng, max_nodes=25, ws_mode=None, names=NAMES, max_depth=6, kinds=('text', 'blank', 'comment', 'cdata', 'pi'),
             attrs=gen_attrs, p_dup=.3):
    """One element recipe with up to max_nodes element descendants.  Returns (E, ws_mode)."""
    budget = [rng.randint(1, max_nodes)]
    ws_mode = ws_mode if ws_mode is not None else rng.choice(['none', 'blank', 'mixed', 'mixed'])

    def el(depth):
        budget[0] -= 1
        e = E(rng.choice(names), attrs(rng))
        if e.name in ('style', 'script', 'rt', 'rp', 'template'):
            # raw-text / special-string elements: parsers store their text in NavigableString subclasses
            if rng.random() < .7:
                e.kids.append(T('text', rng.choice(['p{}', 'x', ' ', 'a b'])))
            budget[0] = max(budget[0], 0)
            return e
        e.kids.extend(gen_filler(rng, ws_mode, kinds))
        while budget[0] > 0 and depth < max_depth and rng.random() < (.75 if depth < 2 else .5):
            e.kids.append(el(depth + 1))
            e.kids.extend(gen_filler(rng, ws_mode, kinds))
        return e
    root = el(0)
    # structurally identical twins (equal tags compare == in bs4; identity must still be what counts)
    if rng.random() < p_dup:
        import copy
        holders = []

        def walk(e):
            if any(isinstance(k, E) for k in e.kids):
                holders.append(e)
            for k in e.kids:
                if isinstance(k, E):
                    walk(k)
        walk(root)
        if holders:
            h = rng.choice(holders)
            idx = [i for i, k in enumerate(h.kids) if isinstance(k, E)]
            i = rng.choice(idx)
            twin = copy.deepcopy(h.kids[i])
            if rng.random() < .5 and len(holders) > 1:
                # the twin under *another* parent: equal by value, different ancestors
                h2 = rng.choice([x for x in holders if x is not h])
                h2.kids.insert(rng.randrange(len(h2.kids) + 1), twin)
            else:
                h.kids.insert(rng.choice([i, i + 1, len(h.kids)]), twin)
    return root, ws_mode


def wrap(rng, root, mode=None, extra=None):
    """Top-level node list: with/without html/head/body wrapper, one or several top-level nodes."""
    mode = mode or rng.choice(['wrap', 'wrap', 'bare', 'multi'])
    if mode == 'wrap':
        tops = [E('html', {}, [E('head'), E('body', {}, [root])])]
    elif mode == 'bare':
        tops = [root]
    else:
        tops = [root, extra if extra is not None else gen_tree(rng, 5)[0]]
    r = rng.random()
    if r < .15:
        tops = [T('comment', 'c')] + tops
    elif r < .25:
        tops = [T('doctype', 'html')] + tops
    elif r < .35:
        tops = tops + [T('text', '\n')]
    elif r < .40:
        tops = [T('text', ' '), T('pi', 'x y')] + tops + [T('comment', 'z')]
    return tops, mode


# ---------------------------------------------------------------------------------------------------------
# materialisers

_KIND = {'text': NavigableString, 'comment': Comment, 'cdata': CData, 'pi': ProcessingInstruction,
         'doctype': Doctype, 'decl': Declaration}


def build_api(tops, parser='html.parser', attach=True):
    """Build through the bs4 API.  parser 'xml' gives an XML-flagged soup.  attach=False returns parentless nodes."""
    from bs4.element import NamespacedAttribute
    soup = BeautifulSoup('', parser)

    def mk(n):
        if isinstance(n, E):
            if n.ns is not None or n.prefix is not None:
                t = soup.new_tag(n.name, namespace=n.ns, nsprefix=n.prefix)
            else:
                t = soup.new_tag(n.name)
            for k, v in n.attrs.items():
                if isinstance(k, tuple):
                    k = NamespacedAttribute(k[0], k[1], k[2])
                t.attrs[k] = list(v) if isinstance(v, list) else v
            for c in n.kids:
                t.append(mk(c))
            return t
        return _KIND[n.kind](n.text)
    nodes = [mk(n) for n in tops]
    if not attach:
        return soup, nodes
    for n in nodes:
        soup.append(n)
    return soup


def _attr_text(v):
    return _html.escape(' '.join(v) if isinstance(v, (list, tuple)) else v, quote=True)


def serialize(n, xml=False):
    if isinstance(n, E):
        parts = []
        for p, uri in n.nsdecl.items():
            parts.append(' xmlns%s="%s"' % ((':' + p) if p else '', _html.escape(uri, quote=True)))
        for k, v in n.attrs.items():
            kn = k if isinstance(k, str) else ((k[0] + ':' + k[1]) if k[0] else k[1])
            parts.append(' %s="%s"' % (kn, _attr_text(v)))
        nm = (n.prefix + ':' + n.name) if n.prefix else n.name
        inner = ''.join(serialize(c, xml) for c in n.kids)
        if xml and not inner:
            return '<%s%s/>' % (nm, ''.join(parts))
        return '<%s%s>%s</%s>' % (nm, ''.join(parts), inner, nm)
    if n.kind == 'text':
        return _html.escape(n.text, quote=False)
    if n.kind == 'comment':
        return '<!--%s-->' % n.text
    if n.kind == 'cdata':
        return '<![CDATA[%s]]>' % n.text
    if n.kind == 'pi':
        return '<?%s?>' % n.text
    if n.kind == 'doctype':
        return '<!DOCTYPE %s>' % n.text
    if n.kind == 'decl':
        return '<!%s>' % n.text
    return ''


def parse(tops, parser):
    """Serialise the recipe and parse it with one of html.parser / lxml / html5lib / xml."""
    xml = parser == 'xml'
    return BeautifulSoup(''.join(serialize(n, xml) for n in tops), parser)


MATERIALISERS = ('api', 'html.parser', 'lxml', 'html5lib', 'xml', 'api-xml')


GRAFT_XML = '<Item kind="x"><Sub>t</Sub><item kind="X"/></Item>'
GRAFT_HTML = '<div title="x"><p>t</p><input type="checkbox" checked><span title="X"></span><a href="u">l</a></div>'


def materialise(tops, how):
    """how: api | api-xml | html.parser | lxml | html5lib | xml, optionally followed by '+graft': an element made by the
    *other* kind of builder (XML-made into an HTML tree, html.parser-made into an XML tree) is moved into the first element of
    the tree - legal bs4 usage; the kind of a document is that of the object at the top of the tree."""
    if how.endswith('+graft'):
        soup = materialise(tops, how[:-6])
        hosts = [e for e in soup.descendants if isinstance(e, bs4.Tag) and e.name not in ('style', 'script', 'iframe', 'textarea')]
        if hosts:
            other = BeautifulSoup(GRAFT_HTML, 'html.parser') if is_xml_top(soup) else BeautifulSoup(GRAFT_XML, 'xml')
            frag = [c for c in other.contents if isinstance(c, bs4.Tag)][0].extract()
            host = hosts[len(hosts) // 2]
            host.insert(len(host.contents) // 2, frag)
        return soup
    if how == 'api':
        return build_api(tops, 'html.parser')
    if how == 'api-xml':
        return build_api(tops, 'xml')
    return parse(tops, how)


# ---------------------------------------------------------------------------------------------------------
# snapshot

class SN:
    """Snapshot node.  kind: doc|el|text|comment|cdata|pi|doctype|decl"""

    __slots__ = ('obj', 'kind', 'name', 'prefix', 'ns', 'attrs', 'kids', 'parent', 'text', 'pos')

    def path(self):
        p, n = [], self
        while n.parent is not None:
            p.append(n.pos)
            n = n.parent
        return tuple(reversed(p))


def node_kind(o):
    if isinstance(o, BeautifulSoup):
        return 'doc'
    if isinstance(o, bs4.Tag):
        return 'el'
    if isinstance(o, Comment):
        return 'comment'
    if isinstance(o, CData):
        return 'cdata'
    if isinstance(o, ProcessingInstruction):
        return 'pi'
    if isinstance(o, Doctype):
        return 'doctype'
    if isinstance(o, Declaration):
        return 'decl'
    if isinstance(o, NavigableString):
        return 'text'
    raise TypeError(type(o))


def snapshot(top):
    """Return (snapshot of top, {id(obj): SN}).  Reads only public bs4 attributes."""
    m = {}

    def rec(o, parent, pos):
        s = SN()
        s.obj = o
        s.kind = node_kind(o)
        s.parent = parent
        s.pos = pos
        s.kids = []
        s.name = s.prefix = s.ns = None
        s.attrs = []
        s.text = None
        if s.kind in ('doc', 'el'):
            s.name = o.name
            s.prefix = o.prefix
            s.ns = o.namespace
            for k, v in o.attrs.items():
                ans = getattr(k, 'namespace', None)
                alocal = getattr(k, 'name', None) if ans is not None or hasattr(k, 'namespace') else None
                s.attrs.append((str(k), ans, alocal, v))
            for i, c in enumerate(o.contents):
                s.kids.append(rec(c, s, i))
        else:
            s.text = str(o)
        m[id(o)] = s
        return s
    return rec(top, None, 0), m


def topmost(obj):
    while obj.parent is not None:
        obj = obj.parent
    return obj


def is_xml_top(top):
    """XML iff the topmost object was produced by an XML builder."""
    v = getattr(top, 'is_xml', None)
    if v is None:
        v = getattr(top, '_is_xml', False)
    return bool(v)


def describe(soup, limit=600):
    try:
        s = soup.decode()
    except Exception:  # noqa: BLE001 - odd attribute values cannot be serialised by bs4
        try:
            s = _own_repr(soup)
        except Exception:  # noqa: BLE001
            s = '<unprintable %s>' % type(soup).__name__
    return s if len(s) <= limit else s[:limit] + '...'


def _own_repr(o):
    if isinstance(o, bs4.Tag):
        inner = ''.join(_own_repr(c) for c in o.contents)
        if isinstance(o, BeautifulSoup):
            return inner
        attrs = ''.join(' %s=%r' % (str(k), v) for k, v in o.attrs.items())
        return '<%s%s>%s</%s>' % (o.name, attrs, inner, o.name)
    return {'comment': '<!--%s-->', 'cdata': '<![CDATA[%s]]>', 'pi': '<?%s?>', 'doctype': '<!DOCTYPE %s>',
            'decl': '<!%s>'}.get(node_kind(o), '%s') % str(o)
