"""Deterministic thread scheduler on sys.monitoring.

Managed threads run only while holding the token.  A LINE callback (soupsieve code objects only; every other location
is DISABLEd on first sight) counts events per managed thread and hands the token over at planned points, so that a
schedule is a pure function of its plan:

    plan = list of (thread index, events to run before preempting)   - consumed in order; when the plan is exhausted
           (or a thread finishes) the remaining threads run to completion in index order.

The scheduler's own state is touched only by the token holder (or, at thread start/end, under the hand-over itself).
"""
import os
import sys
import threading

TOOL = 2
_FRAG = os.sep + 'soupsieve' + os.sep


class Scheduler:
    def __init__(self, granularity='line'):
        self.mon = sys.monitoring
        self.granularity = granularity
        self.active = False
        self.threads = {}          # ident -> index
        self.go = []
        self.done = []
        self.counts = []
        self.plan = []
        self.budget = None         # events left before the current thread is preempted
        self.current = None
        self.sites = set()         # (file, line) where a preemption actually happened
        self.trace = []            # (thread index, events run) segments actually executed
        self._seg = 0
        self.deadlock = False

    # ----- installation (once per process)
    def install(self):
        mon = self.mon
        mon.use_tool_id(TOOL, 'verif-sched')
        ev = mon.events.LINE if self.granularity == 'line' else mon.events.INSTRUCTION
        mon.register_callback(TOOL, ev, self._cb_line if self.granularity == 'line' else self._cb_instr)
        mon.set_events(TOOL, ev)

    def uninstall(self):
        self.mon.set_events(TOOL, 0)
        self.mon.free_tool_id(TOOL)

    # ----- callbacks
    def _cb_line(self, code, line):
        if _FRAG not in code.co_filename:
            return self.mon.DISABLE
        if self.active:
            self._event(code.co_filename, line)

    def _cb_instr(self, code, offset):
        if _FRAG not in code.co_filename:
            return self.mon.DISABLE
        if self.active:
            self._event(code.co_filename, offset)

    def _event(self, fn, where):
        idx = self.threads.get(threading.get_ident())
        if idx is None or idx != self.current:
            return
        self.counts[idx] += 1
        self._seg += 1
        if self.budget is not None:
            self.budget -= 1
            if self.budget <= 0:
                self.sites.add((os.path.basename(fn), where))
                self._switch(idx)

    # ----- token passing
    def _next_plan(self):
        """Pick the next (thread, budget) from the plan, skipping finished threads."""
        while self.plan:
            t, k = self.plan.pop(0)
            if not self.done[t]:
                return t, k
        for t in range(len(self.done)):
            if not self.done[t]:
                return t, None
        return None, None

    def _switch(self, me):
        self.trace.append((me, self._seg))
        self._seg = 0
        t, k = self._next_plan()
        if t is None or t == me:
            self.budget = k
            return
        self.current = t
        self.budget = k
        self.go[me].clear()
        self.go[t].set()
        if not self.go[me].wait(60):
            self.deadlock = True

    def _finish(self, me):
        self.trace.append((me, self._seg))
        self._seg = 0
        self.done[me] = True
        t, k = self._next_plan()
        if t is None:
            return
        self.current = t
        self.budget = k
        self.go[t].set()

    # ----- running one schedule
    def run(self, jobs, plan):
        """jobs: list of callables; plan: list of (thread index, events).  Returns list of ('ok', value) | ('raise', exc)."""
        n = len(jobs)
        self.threads = {}
        self.go = [threading.Event() for _ in range(n)]
        self.done = [False] * n
        self.counts = [0] * n
        self.plan = list(plan)
        self.trace = []
        self._seg = 0
        self.deadlock = False
        results = [None] * n
        started = threading.Barrier(n + 1)

        def body(i):
            self.threads[threading.get_ident()] = i
            started.wait()
            self.go[i].wait()
            try:
                results[i] = ('ok', jobs[i]())
            except BaseException as ex:  # noqa: BLE001 - the monitor reports whatever a thread observes
                results[i] = ('raise', ex)
            finally:
                self._finish(i)
        ths = [threading.Thread(target=body, args=(i,), daemon=True) for i in range(n)]
        for t in ths:
            t.start()
        started.wait()
        t0, k0 = self._next_plan()
        self.current = t0
        self.budget = k0
        self.active = True
        self.go[t0].set()
        for t in ths:
            t.join(120)
        self.active = False
        if any(t.is_alive() for t in ths):
            self.deadlock = True
        return results
