"""Generator of HTML form/state documents as recipes (trees.E / trees.T), shared by C04, C05, C08, C17.

Covers: nested forms, fieldset/legend nesting with disabled, optgroup/option, controls with every type (case
variants), name/checked/disabled/readonly/required/placeholder/contenteditable/dir combinations, radio groups
inside/outside forms and across iframes, bidi text, dir=auto, language attributes and the <meta> pragma.
"""
import copy

from .trees import E, T

TYPES = ['text', 'TEXT', 'submit', 'Submit', 'radio', 'checkbox', 'hidden', 'number', 'range', 'date', 'week', 'time',
         'month', 'datetime-local', 'search', 'tel', 'url', 'email', 'password', 'button', 'reset', 'foo', '', 'wee\u212a']
BOUNDS = ['1', '5', '3', '-1', '.5', 'x', '', '٣', '５', '२.५', '2019-W53', '2020-W53', '2020-W10', '2020-02-30', '2020-02-29',
          '2019-02-29', '10:00', '23:59', '24:00', '04:30', '2020-01', '2020-13', '2020-01-01T10:00', 'abc', '1e3',
          '0999-W01', '10000-W01', '0001-01-01', '12000-12-31', '00:00', '00:00', '0', '0000-01', '00:01']
TEXTS = ['abc', 'אבג', '123', ' ', '‏', 'ابج x', '', 'x', '\n']
LANGS = ['en', 'en-US', 'de', 'de-DE-1996', '', 'fr', 'x-y']


def gen_form_doc(rng, iframes=True, nested_forms=True, max_nodes=30, lang=True, wrapper=None):
    """Returns the list of top-level recipe nodes."""
    budget = [rng.randint(3, max_nodes)]

    def maybe_dir(e, p=.2):
        if rng.random() < p:
            e.attrs['dir'] = rng.choice(['rtl', 'ltr', 'auto', 'AUTO', 'RTL', 'x', ''])

    def maybe_lang(e, p=.12):
        if lang and rng.random() < p:
            e.attrs['lang'] = rng.choice(LANGS)

    def ctl():
        k = rng.choice(['input'] * 7 + ['button', 'select', 'textarea', 'progress', 'a', 'area', 'p', 'bdi', 'span', 'option',
                                        'optgroup', 'legend', 'link', 'custom-el'])
        e = E(k)
        if k == 'input':
            if rng.random() < .88:
                e.attrs['type'] = rng.choice(TYPES)
            if rng.random() < .45:
                e.attrs['name'] = rng.choice(['r', 'q', '', 'R2', 'R', 'r'])
            if rng.random() < .3:
                e.attrs['checked'] = ''
            if rng.random() < .15:
                e.attrs['indeterminate'] = ''
            for a in ('min', 'max', 'value'):
                if rng.random() < .3:
                    e.attrs[a] = rng.choice(BOUNDS)
            if rng.random() < .3:
                e.attrs['placeholder'] = rng.choice(['', 'ph'])
        if k == 'button':
            e.attrs['type'] = rng.choice(['submit', 'SUBMIT', 'button', 'reset'])
        if k == 'textarea':
            if rng.random() < .5:
                e.attrs['placeholder'] = rng.choice(['', 'ph'])
            r = rng.random()
            if r < .45:
                e.kids.append(T('text', rng.choice(['t', ' ', 'אב', 'x y'])))
            elif r < .6:
                # markup inside a textarea: text for lxml/html5lib, child elements for html.parser and API-built trees
                e.kids.append(E(rng.choice(['b', 'span']), {}, [T('text', rng.choice(['typed', 'x']))] if rng.random() < .8 else []))
        if k == 'progress' and rng.random() < .5:
            e.attrs['value'] = '1'
        if k in ('a', 'area', 'link') and rng.random() < .6:
            e.attrs['href'] = 'u'
        if k == 'option' and rng.random() < .4:
            e.attrs['selected'] = ''
        if k in ('p', 'span', 'bdi', 'custom-el', 'legend'):
            if rng.random() < .1:
                e.attrs['type'] = rng.choice(['submit', 'radio', 'checkbox'])       # a look-alike: only input/button are controls
                if rng.random() < .5:
                    e.attrs['checked'] = ''
            if rng.random() < .6:
                e.kids.append(T('text', rng.choice(TEXTS)))
            if rng.random() < .2:
                e.attrs['contenteditable'] = rng.choice(['', 'true', 'TRUE', 'false', 'x'])
            if rng.random() < .25:
                e.attrs['class'] = [rng.choice(['x', 'y'])]
        for a in ('disabled', 'readonly', 'required'):
            if rng.random() < .15:
                e.attrs[a] = ''
        maybe_dir(e)
        maybe_lang(e)
        return e

    def cont(depth):
        pool = ['form', 'fieldset', 'div', 'fieldset', 'form', 'select', 'optgroup', 'div']
        if iframes:
            pool.append('iframe')
        if not nested_forms:
            pool = [p for p in pool if p != 'form'] + (['form'] if depth == 0 else [])
        k = rng.choice(pool if depth < 4 else ['div'])
        e = E(k)
        if k in ('fieldset', 'optgroup', 'select') and rng.random() < .4:
            e.attrs['disabled'] = ''
        if k == 'fieldset' and rng.random() < .5:
            lg = E('legend', {}, [ctl() if rng.random() < .6 else T('text', 'L')])
            e.kids.append(lg)
        maybe_dir(e, .15)
        maybe_lang(e)
        if k == 'iframe':
            b = E('body')
            h = E('html', {}, [b])
            if rng.random() < .3:
                h.attrs['lang'] = rng.choice(LANGS)
            e.kids.append(h)
            tgt = b
        else:
            tgt = e
        while budget[0] > 0 and rng.random() < .75:
            budget[0] -= 1
            tgt.kids.append(cont(depth + 1) if rng.random() < .3 else ctl())
            if rng.random() < .3:
                tgt.kids.append(T('text', rng.choice(['\n', ' ', 't'])))
        return e

    body = E('body')
    while budget[0] > 0:
        budget[0] -= 1
        body.kids.append(cont(0) if rng.random() < .5 else ctl())
    # radio clusters: several groups whose names may differ only by case, inside one form or outside any form
    if rng.random() < .3:
        holder = E('form') if rng.random() < .6 else E('div')
        for _ in range(rng.randint(2, 6)):
            r = E('input', {'type': rng.choice(['radio', 'radio', 'RADIO']), 'name': rng.choice(['r', 'R', 'q', 'r'])})
            if rng.random() < .3:
                r.attrs['checked'] = ''
            holder.kids.append(r)
        body.kids.insert(rng.randrange(len(body.kids) + 1), holder)
    # an iframe as the *last* child of a form / fieldset / div (nothing follows it inside its parent), holding a whole document
    # with its own controls: what comes after the embedded document in tree order belongs to the outer one again
    if iframes and rng.random() < .2:
        inner = E('body', {}, [ctl() for _ in range(rng.randint(1, 3))])
        if rng.random() < .7:
            inner.kids.insert(rng.randrange(len(inner.kids) + 1), E(rng.choice(['button', 'input']), {'type': 'submit'}))
        if rng.random() < .4:
            inner.kids.append(E('input', {'type': 'radio', 'name': 'r', 'checked': ''}))
        fr = E('iframe', {}, [E('html', {}, [inner])])
        holder = E(rng.choice(['form', 'p', 'fieldset', 'div']), {}, [ctl() for _ in range(rng.randint(0, 2))] + [fr])
        after = [E(rng.choice(['button', 'input']), {'type': 'submit'}), E('input', {'type': 'radio', 'name': 'r'})]
        rng.shuffle(after)
        after = after[:rng.randint(0, 2)]
        if holder.name != 'form' and rng.random() < .6:
            # what follows the wrapper is still inside the form
            new = [E('form', {}, [holder] + after)]
        else:
            new = [holder] + after
        at = rng.randrange(len(body.kids) + 1)
        body.kids[at:at] = new
    # twins: structurally identical subtrees (bs4 tags compare equal structurally)
    if rng.random() < .3:
        els = [k for k in body.kids if isinstance(k, E)]
        if els:
            body.kids.append(copy.deepcopy(rng.choice(els)))
    head = E('head')
    r = rng.random()
    if r < .35:
        head.kids.append(E('meta', {'http-equiv': rng.choice(['content-language', 'Content-Language']),
                                    'content': rng.choice(['en', 'de-DE', '', 'fr'])}))
    elif r < .45:
        head.kids.append(E('meta', {'charset': 'utf-8'}))
    html = E('html', {}, [head, body])
    if rng.random() < .3:
        html.attrs['dir'] = rng.choice(['rtl', 'ltr', 'auto', 'x'])
    if lang and rng.random() < .25:
        html.attrs['lang'] = rng.choice(LANGS)
    wrapper = wrapper if wrapper is not None else rng.random() < .85
    if wrapper:
        tops = [html]
        if rng.random() < .3:
            tops = [T('doctype', 'html')] + tops
        return tops
    return list(body.kids) or [E('p')]
