"""Reference semantics for the selector AST of sels.py, evaluated on a tree snapshot (trees.snapshot).

Written independently of soupsieve and structurally unlike its right-to-left recursive matcher: every
(sub)selector is evaluated to a *set of elements* by forward set algebra over the parent/child/sibling
relations.  Three-valued: a result is a pair (T, U) - elements that definitely match and elements for which
neither the property statement nor soupsieve's documentation fixes the answer (counted, never compared).

Document kind rules (docs/api.md): top = topmost ancestor of the call target; XML iff top was built by an XML
builder; root = first element child of a BeautifulSoup top, else the topmost element; XHTML iff XML and the root
is in the XHTML namespace; namespaces are meaningful iff XML or the root has the XHTML namespace.
"""
import re

from .trees import NS_XHTML

WS = ' \t\r\n\f'
_SPLIT = re.compile('[ \t\r\n\f]+')


def lower(s):
    return ''.join(chr(ord(c) + 32) if 'A' <= c <= 'Z' else c for c in s)


def nth_matches(a, b, pos):
    """Exists n >= 0 with a*n + b == pos  (pos is 1-based)."""
    if a == 0:
        return pos == b
    d = pos - b
    return d % a == 0 and d // a >= 0


class Ref:
    def __init__(self, top, target, is_xml, nsmap=None, custom=None, ext=None, switches=()):
        self.top = top
        self.is_xml = bool(is_xml)
        self.nsmap = dict(nsmap) if nsmap else {}
        self.custom = custom or {}
        self.ext = ext or {}
        self.switches = frozenset(switches)
        self.els = [top] if top.kind == 'el' else []
        self._collect(top)
        self.all = set(self.els)
        if top.kind == 'doc':
            tl = [k for k in top.kids if k.kind == 'el']
            self.root = tl[0] if tl else None
        else:
            self.root = top
        self.scope = target if target.kind == 'el' else self.root
        root_ns = self.root.ns if self.root is not None else None
        self.has_html_ns = root_ns == NS_XHTML
        self.ns_aware = self.is_xml or self.has_html_ns
        self.is_html = (not self.is_xml) or self.has_html_ns
        self._cache = {}
        self._root_state = self._root_rule()

    # ----- structure -------------------------------------------------------------------------------------
    def _collect(self, n):
        for k in n.kids:
            if k.kind == 'el':
                self.els.append(k)
                self._collect(k)

    def parent(self, e):
        p = e.parent
        if p is None or p.kind != 'el':
            return None
        return p

    def el_kids(self, e):
        return [k for k in e.kids if k.kind == 'el']

    def sibs(self, e):
        p = e.parent
        return [e] if p is None else [k for k in p.kids if k.kind == 'el']

    def desc(self, e):
        out = []
        for k in e.kids:
            if k.kind == 'el':
                out.append(k)
                out.extend(self.desc(k))
        return out

    def image(self, s, comb):
        out = set()
        for x in s:
            if comb == ' ':
                out.update(self.desc(x))
            elif comb == '>':
                out.update(self.el_kids(x))
            else:
                sb = self.sibs(x)
                i = sb.index(x) if x in sb else -1
                # identity search (SN has no __eq__, so list.index is identity based)
                out.update(sb[i + 1:] if comb == '~' else sb[i + 1:i + 2])
        return out

    # ----- names -----------------------------------------------------------------------------------------
    def nm(self, s):
        return s if self.is_xml else lower(s)

    def el_ns(self, e):
        return e.ns or ''

    def m_tag(self, e, tag):
        """Explicit type/universal selector, possibly with a namespace prefix."""
        prefix, name = tag
        if name != '*' and self.nm(name) != self.nm(e.name):
            return False
        if not self.ns_aware:
            if prefix is None and '' not in self.nsmap:
                return True
            if prefix == '*':
                return True
            return None          # namespaces are not meaningful in this document kind: unspecified
        ns = self.el_ns(e)
        if prefix is None:
            d = self.nsmap.get('')
            return True if d is None else ns == d
        if prefix == '':
            return ns == ''
        if prefix == '*':
            return True
        uri = self.nsmap.get(prefix)
        if uri is None:
            return False
        return ns == uri

    def attr_value(self, e, prefix, name):
        """Value of the attribute designated by [prefix|name] or None.  Returns (found, value) three-valued found."""
        if not self.ns_aware:
            if prefix not in (None, '*'):
                return None, None
            for (k, ans, alocal, v) in e.attrs:
                if lower(k) == lower(name):
                    return True, v
            return False, None
        if prefix in (None, ''):
            for (k, ans, alocal, v) in e.attrs:
                if ans is None and ((k == name) if self.is_xml else (lower(k) == lower(name))):
                    return True, v
            return False, None
        if prefix == '*':
            for (k, ans, alocal, v) in e.attrs:
                local = alocal if ans is not None else k
                if local is None:
                    continue
                if (local == name) if self.is_xml else (lower(local) == lower(name)):
                    return True, v
            return False, None
        uri = self.nsmap.get(prefix)
        if uri is None:
            return False, None
        for (k, ans, alocal, v) in e.attrs:
            if ans is not None and ans == uri and alocal is not None and \
                    ((alocal == name) if self.is_xml else (lower(alocal) == lower(name))):
                return True, v
        return False, None

    @staticmethod
    def as_text(v):
        if v is None:
            return ''
        if isinstance(v, (list, tuple)):
            return ' '.join(str(x) for x in v)
        return str(v)

    def m_attr(self, e, prefix, name, op, val, flag):
        found, v = self.attr_value(e, prefix, name)
        if found is None:
            return None
        if not found:
            return op == '!='
        if not op:
            return True
        x = self.as_text(v)
        ci = flag == 'i' or (flag is None and lower(name) == 'type' and not self.is_xml)
        y = val
        if ci:
            x, y = lower(x), lower(y)
        if op == '=':
            return x == y
        if op == '!=':
            return x != y
        if op == '~=':
            return bool(y) and not any(c in WS for c in y) and y in [w for w in _SPLIT.split(x) if w]
        if op == '|=':
            return x == y or x.startswith(y + '-')
        if not y and 'empty_sub_matches' not in self.switches:
            return False
        if op == '^=':
            return x.startswith(y)
        if op == '$=':
            return x.endswith(y)
        if op == '*=':
            return y in x
        raise ValueError(op)

    def get_plain(self, e, name):
        """Un-namespaced attribute by name (id, class, ...) under the document's case rule."""
        for (k, ans, alocal, v) in e.attrs:
            if (k == name) if self.is_xml else (lower(k) == name):
                return v
        return None

    def classes(self, e):
        v = self.get_plain(e, 'class')
        if v is None:
            return []
        if isinstance(v, str):
            return [w for w in _SPLIT.split(v) if w]
        return [str(x) for x in v]

    # ----- structural pseudo-classes ---------------------------------------------------------------------
    def _root_rule(self):
        """Returns ('single', el) when :root is determined, else ('unspec', set of top-level elements)."""
        top = self.top
        if top.kind != 'doc':
            return ('unspec', {top})
        tl = [k for k in top.kids if k.kind == 'el']
        if len(tl) == 1 and not any(k.kind == 'cdata' or (k.kind == 'text' and k.text.strip(WS)) for k in top.kids):
            return ('single', tl[0])
        return ('unspec', set(tl))

    def m_root(self, e):
        p = e.parent
        if p is not None and p.kind == 'el' and self.is_html and self.nm(p.name) == 'iframe':
            return None                       # the document element of an embedded document: C17's business
        kind, x = self._root_state
        if kind == 'single':
            return e is x
        return None if e in x else False

    def m_empty(self, e):
        for k in e.kids:
            if k.kind == 'el':
                return False
            if k.kind == 'text' and any(ch not in WS for ch in k.text):
                return False
        return True

    def same_type(self, a, b):
        if self.nm(a.name) != self.nm(b.name):
            return False
        if self.ns_aware:
            return self.el_ns(a) == self.el_ns(b)
        return True

    def position(self, e, of_type=False, last=False, among=None):
        s = self.sibs(e)
        if of_type:
            s = [k for k in s if self.same_type(k, e)]
        if among is not None:
            s = [k for k in s if k in among]
        if last:
            s = list(reversed(s))
        for i, k in enumerate(s):
            if k is e:
                return i + 1, len(s)
        return None, len(s)

    def m_struct(self, e, p):
        if p == 'root':
            return self.m_root(e)
        if p == 'empty':
            return self.m_empty(e)
        of_type = p.endswith('of-type')
        if p.startswith('first'):
            return self.position(e, of_type)[0] == 1
        if p.startswith('last'):
            return self.position(e, of_type, last=True)[0] == 1
        return self.position(e, of_type)[1] == 1

    # ----- evaluation ------------------------------------------------------------------------------------
    def ev_list(self, l, top=False):
        T, U = set(), set()
        for cx in l:
            t, u = self.ev_complex(cx, top)
            T |= t
            U |= u
        return T, U - T

    def ev_complex(self, cx, top=False):
        n = (len(cx) + 1) // 2
        T, U = self.ev_compound(cx[0], ('subject' if n == 1 else 'nonsubject') if top else 'inner')
        for i in range(1, len(cx), 2):
            comb, comp = cx[i], cx[i + 1]
            last = i + 1 == len(cx) - 1
            ct, cu = self.ev_compound(comp, ('subject' if last else 'nonsubject') if top else 'inner')
            it = self.image(T, comb)
            iu = self.image(T | U, comb)
            T2 = it & ct
            U2 = (iu & (ct | cu)) - T2
            T, U = T2, U2
            if not T and not U:
                break
        return T, U

    def ev_compound(self, c, mode='inner'):
        key = (id(c), mode)
        r = self._cache.get(key)
        if r is not None:
            return r
        T, U = set(), set()
        subsets = []
        for p in c.get('pseudos', ()):
            subsets.append(self.ev_pseudo_set(p))
        for e in self.els:
            r3 = self.m_simple(e, c, mode)
            if r3 is False:
                continue
            unspec = r3 is None
            ok = True
            for (st, su) in subsets:
                if st is None:
                    continue
                if e in st:
                    continue
                if e in su:
                    unspec = True
                    continue
                ok = False
                break
            if not ok:
                continue
            (U if unspec else T).add(e)
        self._cache[key] = (T, U)
        return T, U

    def ev_pseudo_set(self, p):
        """Set-valued pseudo-classes -> (T, U); element-wise ones -> (None, None) (handled in m_simple)."""
        k = p[0]
        if k in ('is', 'where', 'matches'):
            return self.ev_list(p[1])
        if k == 'not':
            t, u = self.ev_list(p[1])
            return self.all - t - u, set(u)
        if k == 'custom':
            return self.ev_list(self.custom[p[1]])
        if k == 'has':
            T, U = set(), set()
            for a in self.els:
                res = False
                for cb, cx in p[1]:
                    r = self.fwd(a, cb, cx)
                    if r is True:
                        res = True
                        break
                    if r is None:
                        res = None
                if res is True:
                    T.add(a)
                elif res is None:
                    U.add(a)
            return T, U
        if k == 'nth':
            kind, a, b, of = p[1], p[2], p[3], p[4]
            of_type = kind.endswith('of-type')
            last = '-last-' in kind
            among = amb = None
            if of is not None:
                among, amb = self.ev_list(of)
            T, U = set(), set()
            for e in self.els:
                if among is not None:
                    if e not in among and e not in amb:
                        continue
                    # any sibling with an unspecified S-membership makes the position unspecified
                    if e in amb or any(s in amb for s in self.sibs(e)):
                        U.add(e)
                        continue
                pos, _ = self.position(e, of_type, last, among)
                if pos is not None and nth_matches(a, b, pos):
                    T.add(e)
            return T, U
        return None, None

    def m_simple(self, e, c, mode):
        unspec = False
        tag = c.get('tag')
        if tag is not None:
            r = self.m_tag(e, tag)
            if r is False:
                return False
            if r is None:
                unspec = True
        elif mode != 'inner' and '' in self.nsmap:
            # implied universal of a top-level compound: subject to the default namespace (statement, C12).
            if not self.ns_aware:
                unspec = True
            elif self.el_ns(e) != self.nsmap['']:
                if mode == 'subject':
                    return False
                unspec = True        # non-subject compound: CSS and soupsieve's documentation differ -> unspecified
        for i in c.get('ids', ()):
            v = self.get_plain(e, 'id')
            if v is None or self.as_text(v) != i:
                return False
        if c.get('classes'):
            cl = self.classes(e)
            for k in c['classes']:
                if k not in cl:
                    return False
        for a in c.get('attrs', ()):
            r = self.m_attr(e, *a)
            if r is False:
                return False
            if r is None:
                unspec = True
        for p in c.get('pseudos', ()):
            k = p[0]
            if k in ('root', 'empty') or k.endswith('-child') and len(p) == 1 or k.endswith('-of-type') and len(p) == 1:
                r = self.m_struct(e, k)
            elif k in ('scope', 'amp'):
                r = e is self.scope
            elif k in self.ext:
                r = self.ext[k](self, e, p)
            else:
                continue
            if r is False:
                return False
            if r is None:
                unspec = True
        return None if unspec else True

    def fwd(self, anchor, cb, cx):
        """Relative selector `cb cx` anchored at anchor: is there a chain anchor -cb-> e0 -...-> en matching cx?"""
        T, U = {anchor}, set()
        steps = [(cb, cx[0])] + [(cx[i], cx[i + 1]) for i in range(1, len(cx), 2)]
        for comb, comp in steps:
            ct, cu = self.ev_compound(comp, 'inner')
            it = self.image(T, comb)
            iu = self.image(T | U, comb)
            T2 = it & ct
            U2 = (iu & (ct | cu)) - T2
            T, U = T2, U2
            if not T and not U:
                return False
        if T:
            return True
        return None if U else False

    # ----- API-level expectations ------------------------------------------------------------------------
    def select(self, l, target):
        """(expected element list in document order below target, unspecified?)"""
        T, U = self.ev_list(l, top=True)
        d = self.desc(target)
        return [e for e in d if e in T], any(e in U for e in d)

    def match(self, l, e):
        T, U = self.ev_list(l, top=True)
        if e in T:
            return True
        return None if e in U else False
