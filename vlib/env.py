"""Locate the tree under test and import it (never a copy, never a model).

VERIF_REPO (default /repo) is put first on sys.path; soupsieve must resolve inside it.
soupsieve is imported *before* bs4 on purpose: on a tree that still has the C16 defect
`import bs4` first does not work at all, and every other check should still be able to run.
"""
import os
import subprocess
import sys

VERIF = os.path.dirname(os.path.dirname(os.path.abspath(__file__)))
REPO = os.path.realpath(os.environ.get('VERIF_REPO', '/repo'))
PYTHON = os.environ.get('VERIF_PYTHON', '/venv/bin/python')

_done = False


def setup():
    """Import soupsieve from REPO; return the module."""
    global _done
    if REPO not in sys.path[:1]:
        sys.path.insert(0, REPO)
    import soupsieve  # noqa: F401  (first, see module docstring)
    here = os.path.realpath(soupsieve.__file__)
    if not here.startswith(REPO + os.sep):
        raise RuntimeError('soupsieve resolved to %s, not inside %s' % (here, REPO))
    _done = True
    return soupsieve


def repo_state():
    """HEAD and dirty flag of the tree under test (for the evidence file)."""
    out = {'repo': REPO}
    try:
        out['head'] = subprocess.run(['git', '-C', REPO, 'rev-parse', 'HEAD'], capture_output=True, text=True,
                                     timeout=20).stdout.strip()
        st = subprocess.run(['git', '-C', REPO, 'status', '--porcelain', '--', 'soupsieve'], capture_output=True,
                            text=True, timeout=20).stdout
        out['dirty'] = bool(st.strip())
    except Exception as ex:  # not a git checkout (scratch copy): fine
        out['head'] = 'n/a (%s)' % type(ex).__name__
        out['dirty'] = None
    return out
