"""Reference for :lang(): RFC 4647 section 3.3.2 extended filtering + CSS special cases + language determination.

Written from the RFC text, independently of soupsieve's extended_language_filter.
"""
from .refsel import lower
from .trees import NS_XHTML, NS_XML


def extended_filter(rng_, tag):
    """RFC 4647 3.3.2.  Returns True/False, or None when the inputs are outside the specified domain
    (empty subtags inside a non-empty range or tag)."""
    if rng_ == '':
        return tag == ''                     # CSS: the empty range matches only an explicitly empty language
    if tag == '':
        return False                         # nothing but "" matches the empty language ('*' needs a non-empty one)
    r = lower(rng_).split('-')
    t = lower(tag).split('-')
    if any(x == '' for x in r) or any(x == '' for x in t):
        return None
    # step 2
    if r[0] != '*' and r[0] != t[0]:
        return False
    ri, ti = 1, 1
    # step 3
    while ri < len(r):
        if r[ri] == '*':
            ri += 1
            continue
        if ti >= len(t):
            return False
        if t[ti] == r[ri]:
            ri += 1
            ti += 1
            continue
        if len(t[ti]) == 1:
            return False
        ti += 1
    return True


def _attr(e, is_xml, pred):
    for (k, ans, alocal, v) in e.attrs:
        if pred(k, ans, alocal):
            return True, v
    return False, None


def element_language(ref, e, iframe_cut=True):
    """(language or None for unknown, unspecified?)  on snapshot nodes, following the statement."""
    is_html_doc = not ref.is_xml
    cur = e
    top_el = e
    mixed = False
    while cur is not None and cur.kind == 'el':
        top_el = cur
        in_xhtml = (cur.ns == NS_XHTML)
        if not ref.ns_aware or in_xhtml:
            found, v = _attr(cur, ref.is_xml, lambda k, ans, al: ans is None and ((k == 'lang') if ref.is_xml else (lower(k) == 'lang')))
        else:
            found, v = _attr(cur, ref.is_xml, lambda k, ans, al: ans == NS_XML and al is not None and
                             ((al == 'lang') if ref.is_xml else (lower(al) == 'lang')))
        if found:
            if isinstance(v, (list, tuple)):
                return None, True
            return str(v), mixed
        p = cur.parent
        if p is None or p.kind != 'el':
            break
        if ref.ns_aware and (p.ns == NS_XHTML) != in_xhtml:
            mixed = True                     # lang vs xml:lang applies per element: mixed chains are unspecified
        if iframe_cut and ref.is_html and ref.nm(p.name) == 'iframe' and (not ref.ns_aware or p.ns == NS_XHTML):
            break                            # the content of an iframe is its own document
        cur = p
    # <meta http-equiv="content-language" content="..."> of the element's own document
    doc_root = top_el
    container = doc_root.parent              # the node holding the document element (document object or the iframe)
    if container is None:
        # detached: the walk ended on a parentless element; where a pragma would be looked for is not specified
        return None, True
    meta = _meta_language(ref, container)
    if meta is None:
        return None, mixed
    if ref.is_xml:
        # XHTML: whether the HTML pragma applies is not settled by the statement or the documentation
        return None, True if ref.has_html_ns else mixed
    if container.kind != 'doc':
        # the pragma of a document embedded in an iframe: not settled either
        return None, True
    return meta, mixed


def _meta_language(ref, container):
    html = None
    for k in container.kids:
        if k.kind == 'el' and ref.nm(k.name) == 'html' and (not ref.ns_aware or k.ns == NS_XHTML):
            html = k
            break
    if html is None:
        return None
    head = None
    for k in html.kids:
        if k.kind == 'el' and ref.nm(k.name) == 'head' and (not ref.ns_aware or k.ns == NS_XHTML):
            head = k
            break
    if head is None:
        return None
    for k in head.kids:
        if k.kind == 'el' and ref.nm(k.name) == 'meta':
            he = ct = None
            for (kk, ans, al, v) in k.attrs:
                if lower(kk) == 'http-equiv' and he is None:
                    he = v
                if lower(kk) == 'content' and ct is None:
                    ct = v
            if isinstance(he, str) and lower(he) == 'content-language' and isinstance(ct, str) and ct:
                return ct
    return None


def lang_ext(ref, e, p):
    """refsel extension hook for ('lang', [range, ...])."""
    lang, unspec = element_language(ref, e)
    if unspec:
        return None
    if lang is None:
        return False
    res = False
    for r in p[1]:
        m = extended_filter(r, lang)
        if m is True:
            return True
        if m is None:
            res = None
    return res
