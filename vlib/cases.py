"""One (tree, selector, target) case against the reference: build, snapshot, call the real API, compare."""
import copy
import random

from . import monitors, refsel, sels, trees


def pick_target(soup, target):
    """target: ['doc'] | ['el', k] | ['detached', k]  ->  (top object, target object)."""
    import bs4
    els = [e for e in soup.descendants if isinstance(e, bs4.Tag)]
    if target[0] == 'doc' or not els:
        return soup, soup
    e = els[target[1] % len(els)]
    if target[0] == 'detached':
        e.extract()
        return e, e
    return soup, e


def tree_shape(top_sn):
    out = []

    def rec(n, d):
        out.append((d, n.kind[0]))
        for k in n.kids:
            rec(k, d + 1)
    rec(top_sn, 0)
    return tuple(out)


class Case:
    """A materialised case.  Raises nothing itself; use .run()."""

    def __init__(self, tops, how, target, nsmap=None, custom=None, ext=None):
        self.tops, self.how, self.target = tops, how, list(target)
        self.nsmap, self.custom, self.ext = nsmap, custom, ext
        self.live_ns = None        # optional: one dict object the caller keeps re-using (refilled before every call)
        self.soup = trees.materialise(tops, how)
        self.top_obj, self.target_obj = pick_target(self.soup, self.target)
        self.top_sn, self.idmap = trees.snapshot(self.top_obj)
        self.is_xml = trees.is_xml_top(self.top_obj)
        self.target_sn = self.idmap[id(self.target_obj)]

    def ns_arg(self):
        """The namespaces argument handed to soupsieve: the map itself, or the caller's long-lived dict refilled with it."""
        if self.live_ns is None or not isinstance(self.nsmap, dict):
            return self.nsmap
        self.live_ns.clear()
        self.live_ns.update(self.nsmap)
        return self.live_ns

    def ref(self, custom_ast=None):
        return refsel.Ref(self.top_sn, self.target_sn, self.is_xml, self.nsmap, custom_ast or {}, self.ext)

    def witness(self, ast, text, what, **kw):
        w = {'what': what, 'selector': text, 'ast': ast, 'tree': [t.to_json() for t in self.tops], 'how': self.how,
             'target': self.target, 'nsmap': self.nsmap, 'markup': trees.describe(self.top_obj, 400)}
        w.update(kw)
        return w


def labels(objs):
    out = []
    for o in objs:
        try:
            out.append('%s%s' % (o.name, ('#' + str(o.get('id'))) if o.get('id') is not None else ''))
        except Exception:  # noqa: BLE001
            out.append(repr(o)[:30])
    return out


def compare_select(sv, case, ast, text=None, api=None, budget=20.0, match_law=False, match_kw=None, check_structure=True):
    """Compare sv.select(text, target) with the reference.

    Returns (status, info): status in 'agree', 'unspec', 'DISAGREE', 'RAISE', 'BUDGET';
    info['nontrivial'] says whether the expected set is neither empty nor everything.
    """
    canon = sels.render(ast)
    text = text if text is not None else canon
    ref = case.ref()
    exp, unspec = ref.select(ast, case.target_sn)
    call = api or (lambda: sv.select(text, case.target_obj, namespaces=case.ns_arg()))
    st, got = monitors.guarded_call(call, budget=budget)
    info = {'text': text, 'n_exp': len(exp), 'n_all': len(ref.desc(case.target_sn)), 'unspec': unspec}
    info['nontrivial'] = bool(exp) and len(exp) < info['n_all']
    if st == 'budget':
        return 'BUDGET', info
    if st == 'raise':
        info['exc'] = '%s: %s' % (type(got).__name__, str(got)[:200])
        info['site'] = monitors.exc_site(got)
        return 'RAISE', info
    if text != canon and check_structure:
        # a CSS-insignificant respelling must compile to the same structure as the canonical rendering
        try:
            kw = dict(match_kw or {})
            if sv.compile(text, case.ns_arg(), **kw).selectors != sv.compile(canon, case.ns_arg(), **kw).selectors:
                info['got'] = 'structure of the respelling differs'
                info['exp'] = 'canonical: %s' % canon[:200]
                return 'DISAGREE', info
        except Exception as ex:  # noqa: BLE001
            info['exc'] = 'respelling/canonical compile: %r' % ex
            return 'RAISE', info
    # reference-free side law (catches state that leaks from one element's evaluation into the next within a call):
    # for :scope-free selectors, select() membership must equal match() asked for each element alone
    if match_law and ':scope' not in text and '&' not in text:
        import bs4
        members = {id(x) for x in got}
        for e in case.target_obj.descendants:
            if not isinstance(e, bs4.Tag):
                continue
            st2, m = monitors.guarded_call(lambda: sv.match(text, e, namespaces=case.ns_arg(), **(match_kw or {})), budget=budget)
            if st2 != 'ok':
                break
            if bool(m) != (id(e) in members):
                info['got'] = labels(got)
                info['exp'] = 'match() alone says %r for <%s>' % (m, e.name)
                info['match_law'] = True
                return 'DISAGREE', info
        info['match_law_checked'] = True
    if unspec:
        return 'unspec', info
    gi = [id(x) for x in got]
    ei = [id(e.obj) for e in exp]
    if set(gi) != set(ei):
        info['got'] = labels(got)
        info['exp'] = labels(e.obj for e in exp)
        return 'DISAGREE', info
    info['got_list'] = gi
    info['exp_list'] = ei
    return 'agree', info


def respelled(rng, ast, p=.2):
    """Selector text for the AST: canonical, or (with probability p) a random CSS-insignificant respelling of it
    (escapes in identifiers and values, quote style, letter case of keywords, whitespace/comments) - the reference
    evaluates the AST either way."""
    from . import respell
    toks = respell.classify(sels.tok_list(ast))
    if rng.random() >= p:
        return respell.render(toks, rng, {})
    active = {}
    for i, t in enumerate(toks):
        rs = {r for r in respell.applicable(t) if rng.random() < .4}
        if rs:
            active[i] = rs
    return respell.render(toks, rng, active)


def rebuild(w):
    tops = [trees.from_json(j) for j in w['tree']]
    return tops


def rng_for(unit):
    return random.Random(unit['seed'])


def deep(x):
    return copy.deepcopy(x)
