"""Lexical respelling of selector token lists (sels.tok_list) by the CSS-insignificant rewrite rules of C09.

Rules (each can be applied at one token or at all tokens):
  ws      - optional slots ('o') / required whitespace ('r') / flag separator ('f'): any amount of ' ' \\t \\n \\r\\n \\r \\f
            and comments with arbitrary bodies
  esc     - identifier ('id'), value ('val'/'str') and pseudo-class name characters as hex escapes (1-6 digits, either
            case, leading zeros, every terminator kind) or character escapes
  quote   - "..." / '...' / bare identifier for the same value
  case    - pseudo-class names, An+B keywords, of, ltr/rtl, i/s in any letter case
"""
HEX = '0123456789abcdefABCDEF'
WS_KINDS = [' ', '\t', '\n', '\r\n', '\r', '\f']
TERMINATORS = [' ', '\t', '\n', '\r\n', '\f']          # a lone \r could fuse with a following \n (see DESIGN.md section 3)
COMMENT_ALPHABET = ['en', 'de', '"fr"', 'alpha', "'t'", '""', ' ', 'x', '*', '/', '"', "'", '\n', '(', ')', '[', ']', ',', '>', '+', '~', '\\', ':', 'é', '\r\n', '\t',
                    '/*', '* /', '**', 'of', 'i', '|', '=', '#', '.', '@', '-->', '{', '\\"']


def rnd_comment(rng):
    body = ''.join(rng.choice(COMMENT_ALPHABET) for _ in range(rng.choice([0, 0, 1, 2, 4, 9])))
    while '*/' in body:
        body = body.replace('*/', '* /')
    if body.endswith('*') and rng.random() < .5:
        pass                      # '/***/' style endings are legal and interesting
    return '/*' + body + '*/'


def rnd_wsc(rng, need_ws=False, need_any=False, allow_empty=True):
    parts = []
    n = rng.choice([0, 1, 1, 2, 3, 5]) if allow_empty and not (need_ws or need_any) else rng.choice([1, 1, 2, 3, 5])
    for _ in range(n):
        parts.append(rnd_comment(rng) if rng.random() < .35 else rng.choice(WS_KINDS))
    if need_ws and not any(p in WS_KINDS for p in parts):
        parts.insert(rng.randrange(len(parts) + 1), rng.choice(WS_KINDS))
    if need_any and not parts:
        parts.append(rng.choice(WS_KINDS))
    return ''.join(parts)


def hex_escape(rng, c, digits=None):
    h = '%x' % ord(c)
    if digits is None:
        digits = rng.randint(len(h), 6)
    h = h.rjust(max(digits, len(h)), '0')
    h = ''.join(ch.upper() if rng.random() < .5 else ch for ch in h)
    return '\\' + h


def _ident_literal_ok(c, i, s):
    o = ord(c)
    if o >= 0x80 or c == '_' or ('a' <= c <= 'z') or ('A' <= c <= 'Z'):
        return True
    if c == '-':
        return len(s) > 1
    if c.isdigit() and o < 0x80:
        return not (i == 0 or (i == 1 and s[0] == '-'))
    return False


def _pieces(rng, s, kind, p_escape):
    """kind 'ident' | 'string'; returns list of (text, is_hex, ndigits)."""
    out = []
    for i, c in enumerate(s):
        o = ord(c)
        if kind == 'ident':
            lit = _ident_literal_ok(c, i, s)
        else:
            lit = c not in '\n\r\f\\' and o != 0
        can_char = c not in HEX and c not in '\n\r\f' and o != 0
        choices = []
        if lit and rng.random() >= p_escape:
            out.append((c, False, 0))
            continue
        if can_char:
            choices.append('char')
        choices.append('hex')
        if lit and not choices:
            choices.append('lit')
        ch = rng.choice(choices)
        if ch == 'char':
            out.append(('\\' + c, False, 0))
        else:
            e = hex_escape(rng, c)
            out.append((e, True, len(e) - 1))
    return out


def _join(rng, pieces, kind, protect_end):
    out = []
    for i, (t, is_hex, nd) in enumerate(pieces):
        out.append(t)
        if not is_hex:
            continue
        last = i == len(pieces) - 1
        nxt = pieces[i + 1][0][0] if not last else None
        if last:
            must = protect_end or nd < 6
            # at the very end of a string no terminator is needed; harmless either way
            if kind == 'string' and not protect_end:
                must = False
        else:
            must = (nd < 6 and nxt in HEX) or nxt in ' \t\n\r\f'
        if must or rng.random() < .3:
            out.append(rng.choice(TERMINATORS))
    return ''.join(out)


def spell_ident(rng, s, p_escape=.3, keep_prefix=0):
    pieces = _pieces(rng, s, 'ident', p_escape)
    for i in range(min(keep_prefix, len(pieces))):
        pieces[i] = (s[i], False, 0)
    return _join(rng, pieces, 'ident', True)


def spell_string(rng, s, p_escape=.3, quote=None):
    q = quote or rng.choice('"\'')
    pieces = []
    for (t, is_hex, nd), c in zip(_pieces(rng, s, 'string', p_escape), s):
        if t == q:                                   # the literal quote character must be escaped
            t, is_hex, nd = ('\\' + q, False, 0) if rng.random() < .6 else (hex_escape(rng, c), True, 0)
            if is_hex:
                nd = len(t) - 1
        pieces.append((t, is_hex, nd))
    # line continuations: a backslash followed by a newline inside a string stands for nothing, wherever it is written
    while rng.random() < .12:
        pieces.insert(rng.randrange(len(pieces) + 1), ('\\' + rng.choice(['\n', '\n', '\r\n', '\f', '\r']), False, 0))
    return q + _join(rng, pieces, 'string', False) + q


def spell_case(rng, t):
    return ''.join(c.upper() if rng.random() < .5 else c.lower() for c in t)


def classify(tokens):
    """Mark pseudo-class names: a 'kw' right after ':' becomes 'pn'."""
    out = []
    for i, t in enumerate(tokens):
        if t[0] == 'kw' and i and tokens[i - 1] == ('p', ':'):
            out.append(('pn', t[1]))
        elif t[0] == 'id' and i and tuple(tokens[i - 1]) == ('p', ':') and t[1].startswith('--'):
            out.append(('cn', t[1]))                      # custom pseudo-class name: case-insensitive, ':--' literal
        else:
            out.append(tuple(t))
    return out


RULES = ('ws', 'esc', 'quote', 'case')


def applicable(tok):
    k = tok[0]
    if k in ('o', 'r', 'f'):
        return ['ws']
    if k == 'id':
        return ['esc']
    if k in ('val', 'str'):
        return ['esc', 'quote']
    if k in ('pn', 'cn'):
        return ['case', 'esc']
    if k == 'kw':
        return ['case']
    return []


def render(tokens, rng, active):
    """active: dict token index -> set of rules to apply there (missing = canonical spelling)."""
    from .sels import ser_ident, ser_string
    out = []
    prev_bare_val = False
    for i, t in enumerate(tokens):
        rules = active.get(i, ())
        k = t[0]
        bare = False
        if k == 'p' or k == 'num':
            out.append(t[1])
        elif k == 'kw':
            out.append(spell_case(rng, t[1]) if 'case' in rules else t[1])
        elif k == 'pn':
            s = t[1]
            if 'case' in rules:
                s = spell_case(rng, s)
            out.append(spell_ident(rng, s, .35) if 'esc' in rules else s)
        elif k == 'cn':
            # custom pseudo-class names are recognised by their literal ':--' prefix (documented form); the rest of the
            # name is an ASCII-case-insensitive identifier and may be escaped
            s = t[1]
            if 'case' in rules:
                s = s[:2] + spell_case(rng, s[2:])
            out.append(spell_ident(rng, s, .35, keep_prefix=2) if 'esc' in rules else ser_ident(s))
        elif k == 'id':
            out.append(spell_ident(rng, t[1]) if 'esc' in rules else ser_ident(t[1]))
        elif k in ('val', 'str'):
            v = t[1]
            as_ident = k == 'val' and 'quote' in rules and len(v) > 0 and rng.random() < .5
            if as_ident:
                out.append(spell_ident(rng, v, .3 if 'esc' in rules else 0.0))
                bare = True
            elif 'quote' in rules or 'esc' in rules:
                out.append(spell_string(rng, v, .3 if 'esc' in rules else 0.0, None if 'quote' in rules else '"'))
            else:
                out.append(ser_string(v))
        elif k == 'o':
            out.append(rnd_wsc(rng) if 'ws' in rules else '')
        elif k == 'r':
            if 'ws' in rules:
                # comments first are fine, but at least one real whitespace character
                out.append(rnd_wsc(rng, need_ws=True))
            else:
                out.append(' ')
        elif k == 'f':
            if 'ws' in rules:
                out.append(rnd_wsc(rng, need_any=prev_bare_val, allow_empty=not prev_bare_val))
            else:
                out.append(' ')
        prev_bare_val = bare
    return ''.join(out)
