"""KNOWN_FINDINGS.txt reader.  The file is committed and never written at run time.

    finding: property=<id> key=<classifier> <what fails>
    fixed: property=<id> <commit> <what failed>

A 'finding' line is honoured only through a classifier in the property module that recognises the *mechanism*
(defect-model switch in the reference, repair predicate on the witness); a 'fixed' line suppresses nothing.
"""
import os
import re

from . import env


def load(path=None):
    path = path or os.path.join(env.VERIF, 'KNOWN_FINDINGS.txt')
    open_findings, fixed = {}, []
    if not os.path.exists(path):
        return open_findings, fixed
    for line in open(path, encoding='utf8'):
        line = line.strip()
        if not line or line.startswith('#'):
            continue
        m = re.match(r'finding:\s+property=(\S+)\s+key=(\S+)\s+(.*)$', line)
        if m:
            open_findings[(m.group(1), m.group(2))] = m.group(3)
            continue
        m = re.match(r'fixed:\s+property=(\S+)\s+(\S+)\s+(.*)$', line)
        if m:
            fixed.append((m.group(1), m.group(2), m.group(3)))
    return open_findings, fixed


def open_keys(pid):
    return {k for (p, k) in load()[0] if p == pid}
