"""Delta debugging of (tree recipe, selector AST) witnesses: greedy one-change-at-a-time passes to a fixpoint.

`fails(tops, ast)` must re-run the *same* oracle against the real code and say whether it still fails.
"""
import copy

from .trees import E


def _tree_edits(tops):
    """Yield candidate smaller variants of the top-level node list."""
    # drop a top-level node
    if len(tops) > 1:
        for i in range(len(tops)):
            yield tops[:i] + tops[i + 1:]

    def walk(node, path):
        if isinstance(node, E):
            yield node, path
            for i, k in enumerate(node.kids):
                yield from walk(k, path + [i])
    for ti, t in enumerate(tops):
        for node, path in list(walk(t, [])):
            # remove one child
            for i in range(len(node.kids)):
                new = copy.deepcopy(tops)
                n = new[ti]
                for p in path:
                    n = n.kids[p]
                del n.kids[i]
                yield new
            # replace a child element by its children (hoist)
            for i, k in enumerate(node.kids):
                if isinstance(k, E) and k.kids:
                    new = copy.deepcopy(tops)
                    n = new[ti]
                    for p in path:
                        n = n.kids[p]
                    n.kids[i:i + 1] = n.kids[i].kids
                    yield new
            # remove one attribute
            for a in list(node.attrs):
                new = copy.deepcopy(tops)
                n = new[ti]
                for p in path:
                    n = n.kids[p]
                del n.attrs[a]
                yield new
        # replace a top-level element by one of its element children
        if isinstance(t, E):
            for k in t.kids:
                if isinstance(k, E):
                    new = copy.deepcopy(tops)
                    new[ti] = copy.deepcopy(k)
                    yield new


def _sel_edits(l):
    if len(l) > 1:
        for i in range(len(l)):
            yield l[:i] + l[i + 1:]
    for ci, cx in enumerate(l):
        n = (len(cx) + 1) // 2
        if n > 1:
            # drop leading or trailing compound (+ its combinator)
            yield l[:ci] + [cx[2:]] + l[ci + 1:]
            yield l[:ci] + [cx[:-2]] + l[ci + 1:]
        for pi in range(0, len(cx), 2):
            c = cx[pi]
            for field in ('ids', 'classes', 'attrs', 'pseudos'):
                for j in range(len(c.get(field, ()))):
                    c2 = dict(c)
                    c2[field] = list(c[field][:j]) + list(c[field][j + 1:])
                    if not (c2.get('tag') or c2['ids'] or c2['classes'] or c2['attrs'] or c2['pseudos']):
                        c2['tag'] = (None, '*')
                    yield l[:ci] + [cx[:pi] + [c2] + cx[pi + 1:]] + l[ci + 1:]
            if c.get('tag') is not None and (c.get('ids') or c.get('classes') or c.get('attrs') or c.get('pseudos')):
                c2 = dict(c)
                c2['tag'] = None
                yield l[:ci] + [cx[:pi] + [c2] + cx[pi + 1:]] + l[ci + 1:]
            # descend into logical pseudo-classes
            for j, p in enumerate(c.get('pseudos', ())):
                if p[0] in ('not', 'is', 'where', 'matches'):
                    for sub in _sel_edits(list(p[1])):
                        c2 = dict(c)
                        c2['pseudos'] = list(c['pseudos'])
                        c2['pseudos'][j] = (p[0], sub)
                        yield l[:ci] + [cx[:pi] + [c2] + cx[pi + 1:]] + l[ci + 1:]
                elif p[0] == 'has' and len(p[1]) > 1:
                    for d in range(len(p[1])):
                        c2 = dict(c)
                        c2['pseudos'] = list(c['pseudos'])
                        c2['pseudos'][j] = ('has', list(p[1][:d]) + list(p[1][d + 1:]))
                        yield l[:ci] + [cx[:pi] + [c2] + cx[pi + 1:]] + l[ci + 1:]


def shrink(tops, ast, fails, budget=400):
    """Return (tops, ast) locally minimal w.r.t. the edits above (or the input if budget runs out)."""
    tops = copy.deepcopy(tops)
    ast = copy.deepcopy(ast)
    changed = True
    while changed and budget > 0:
        changed = False
        for cand in _sel_edits(ast):
            budget -= 1
            if budget <= 0:
                break
            try:
                if fails(tops, cand):
                    ast = cand
                    changed = True
                    break
            except Exception:  # noqa: BLE001 - an edit that breaks the harness is just not taken
                continue
        if changed:
            continue
        for cand in _tree_edits(tops):
            budget -= 1
            if budget <= 0:
                break
            try:
                if fails(cand, ast):
                    tops = cand
                    changed = True
                    break
            except Exception:  # noqa: BLE001
                continue
    return tops, ast
