"""Runtime monitors shared by the property drivers.

* cpu_budget      – ITIMER_VIRTUAL budget around one monitored API call (CPU time of this process, so a loaded
                    machine cannot turn it into a wall-clock verdict).  Interrupts pure-Python loops and the C regex
                    engine alike (the signal handler runs as soon as the engine returns to the eval loop; `re`
                    checks for signals periodically).
* Reach           – passive probe: which functions of soupsieve were entered (sys.monitoring PY_START + DISABLE,
                    ~free).  Evidence only; never decides a verdict.
* guarded_call    – exception sanitizer: run f, classify what escapes.
* TreeTripwire    – before/after structural snapshot of a bs4 tree + recording wrappers on bs4 mutators.
"""
import os
import signal
import sys
import time
from contextlib import contextmanager


class BudgetExceeded(BaseException):
    """Raised inside the monitored call when its CPU budget is exhausted (BaseException: not swallowed)."""


def _on_vtalrm(signum, frame):
    raise BudgetExceeded()


_installed = False


@contextmanager
def cpu_budget(seconds=20.0):
    global _installed
    if not _installed:
        signal.signal(signal.SIGVTALRM, _on_vtalrm)
        _installed = True
    signal.setitimer(signal.ITIMER_VIRTUAL, seconds)
    try:
        yield
    finally:
        signal.setitimer(signal.ITIMER_VIRTUAL, 0)


def guarded_call(f, *a, budget=20.0, **kw):
    """Return ('ok', value) | ('raise', exc) | ('budget', None)."""
    try:
        with cpu_budget(budget):
            return 'ok', f(*a, **kw)
    except BudgetExceeded:
        return 'budget', None
    except RecursionError as ex:
        return 'raise', ex
    except Exception as ex:  # noqa: BLE001 - this *is* the sanitizer
        return 'raise', ex


def exc_site(ex):
    """Innermost soupsieve frame of an exception: 'file.py:func' (mechanism key, no line numbers)."""
    tb = ex.__traceback__
    site = None
    while tb is not None:
        fn = tb.tb_frame.f_code.co_filename
        if os.sep + 'soupsieve' + os.sep in fn:
            site = '%s:%s' % (os.path.basename(fn), tb.tb_frame.f_code.co_name)
        tb = tb.tb_next
    return site


class Reach:
    """Functions of soupsieve entered during the run (qualname set)."""

    TOOL = 4

    def __init__(self):
        self.seen = set()
        self.on = False

    def start(self):
        mon = sys.monitoring
        try:
            mon.use_tool_id(self.TOOL, 'verif-reach')
        except ValueError:
            return
        frag = os.sep + 'soupsieve' + os.sep

        def cb(code, offset):
            if frag in code.co_filename:
                self.seen.add(os.path.basename(code.co_filename)[:-3] + '.' + code.co_qualname)
            return mon.DISABLE
        mon.register_callback(self.TOOL, mon.events.PY_START, cb)
        mon.set_events(self.TOOL, mon.events.PY_START)
        self.on = True

    def stop(self):
        if self.on:
            sys.monitoring.set_events(self.TOOL, 0)
            sys.monitoring.free_tool_id(self.TOOL)
            self.on = False
        return sorted(self.seen)


class StepCounter:
    """Counts LINE events inside soupsieve for one call (bounded restatement of 'terminates')."""

    TOOL = 5

    def __init__(self, limit):
        self.limit = limit
        self.n = 0

    def __enter__(self):
        mon = sys.monitoring
        mon.use_tool_id(self.TOOL, 'verif-steps')
        frag = os.sep + 'soupsieve' + os.sep
        me = self

        def cb(code, line):
            if frag not in code.co_filename:
                return mon.DISABLE
            me.n += 1
            if me.n > me.limit:
                raise BudgetExceeded()
        mon.register_callback(self.TOOL, mon.events.LINE, cb)
        mon.set_events(self.TOOL, mon.events.LINE)
        return self

    def __exit__(self, *a):
        sys.monitoring.set_events(self.TOOL, 0)
        sys.monitoring.register_callback(self.TOOL, sys.monitoring.events.LINE, None)
        sys.monitoring.free_tool_id(self.TOOL)
        return False


class Failpoint:
    """Source-free failpoint: raises `exc` at the `at`-th LINE event inside soupsieve's own code (at=None: only count).

    The exception is raised from the sys.monitoring callback, i.e. it appears in the monitored code exactly where an
    asynchronous exception (KeyboardInterrupt, MemoryError) could appear.  One shot: after firing it only counts."""

    TOOL = 3

    def __init__(self, at=None, exc=KeyboardInterrupt):
        self.at = at
        self.exc = exc
        self.n = 0
        self.fired = None

    def __enter__(self):
        mon = sys.monitoring
        mon.use_tool_id(self.TOOL, 'verif-failpoint')
        frag = os.sep + 'soupsieve' + os.sep
        me = self

        def cb(code, line):
            if frag not in code.co_filename:
                return mon.DISABLE
            me.n += 1
            if me.at is not None and me.n == me.at and me.fired is None:
                me.fired = '%s:%s:%d' % (os.path.basename(code.co_filename), code.co_name, line)
                raise me.exc('injected at ' + me.fired)
        mon.register_callback(self.TOOL, mon.events.LINE, cb)
        mon.set_events(self.TOOL, mon.events.LINE)
        return self

    def __exit__(self, *a):
        sys.monitoring.set_events(self.TOOL, 0)
        sys.monitoring.register_callback(self.TOOL, sys.monitoring.events.LINE, None)
        sys.monitoring.free_tool_id(self.TOOL)
        return False


# ---------------------------------------------------------------------------------------------------------
# Tree-mutation tripwire (C04, also used by C03/C08 drivers as a cheap side monitor)

def tree_fingerprint(top):
    """Structural snapshot through bs4's public attributes: a tuple that must be equal before and after any query."""
    import bs4
    out = []

    def rec(o, depth):
        if isinstance(o, bs4.Tag):
            out.append((id(o), depth, type(o).__name__, o.name, o.prefix, o.namespace, id(o.attrs),
                        tuple((str(k), getattr(k, 'namespace', None), _freeze(v)) for k, v in o.attrs.items()),
                        id(o.parent) if o.parent is not None else None,
                        id(o.next_sibling) if o.next_sibling is not None else None,
                        id(o.previous_sibling) if o.previous_sibling is not None else None,
                        tuple(sorted(vars(o)))))
            for c in o.contents:
                rec(c, depth + 1)
        else:
            out.append((id(o), depth, type(o).__name__, str(o), id(o.parent) if o.parent is not None else None))
    rec(top, 0)
    return tuple(out)


def _freeze(v):
    if isinstance(v, (list, tuple)):
        return (type(v).__name__, tuple(_freeze(x) for x in v))
    if isinstance(v, (str, bytes, int, float)) or v is None:
        return (type(v).__name__, v)
    return (type(v).__name__, repr(v))


_MUTATORS = ('__setitem__', '__delitem__', 'append', 'insert', 'extend', 'clear', 'extract', 'decompose',
             'replace_with', 'wrap', 'unwrap', 'insert_before', 'insert_after', 'smooth')


class MutatorTrap:
    """Records any call of a bs4 tree mutator while armed (the 'during the call' half of the tripwire)."""

    def __init__(self):
        self.events = []
        self.armed = False
        self._orig = {}

    def install(self):
        import bs4
        trap = self
        for cls in (bs4.Tag, bs4.element.PageElement):
            for name in _MUTATORS:
                if name in vars(cls):
                    orig = vars(cls)[name]
                    self._orig[(cls, name)] = orig

                    def make(orig, name, cls):
                        def w(self, *a, **kw):
                            if trap.armed:
                                trap.events.append('%s.%s' % (cls.__name__, name))
                            return orig(self, *a, **kw)
                        w.__name__ = name
                        return w
                    setattr(cls, name, make(orig, name, cls))

    def uninstall(self):
        for (cls, name), orig in self._orig.items():
            setattr(cls, name, orig)
        self._orig.clear()


def thread_cpu():
    return time.thread_time()
