"""One namespaces dict, edited in place by the caller between consecutive calls.

A caller (Beautiful Soup itself does this with `soup._namespaces`) keeps ONE dict object, changes it in place - same keys,
other URIs; same number of keys, other prefixes; a default namespace added or dropped - and passes it again.  Nothing else
is compiled in between (no equal copy, no other map), which is exactly what hides a memo keyed on the dict's identity or
length.  Every call must answer for the dict's content *at the time of the call*; a compiled object made earlier keeps the
meaning it was compiled with (it is a value) however the caller's dict changes afterwards.

sequence(...) returns None or a dict(what=..., step=..., text=...).
"""
from vlib import cases, monitors


def variants(rng, m, pool):
    """In-place successors of map m (a dict): same length where possible."""
    keys = list(m)
    vals = list(m.values())
    out = []
    if len(keys) > 1:
        out.append(dict(zip(keys, vals[1:] + vals[:1])))                    # same keys, URIs rotated
    for k in keys:
        for u in pool:
            if u != m[k]:
                out.append(dict(m, **{k: u}))                               # one prefix re-bound
                break
    if '' in m:
        d = {k: v for k, v in m.items() if k != ''}
        out.append(d)
        d2 = dict(d)
        d2['zz'] = m['']                                                    # same length, no default any more
        out.append(d2)
    else:
        out.append(dict(m, **{'': rng.choice(pool)}))
        if keys:
            d = {k: v for k, v in m.items() if k != keys[0]}
            d[''] = m[keys[0]]                                              # same length, a prefix became the default
            out.append(d)
    return out


def sequence(sv, rng, case, ast, text, m0, pool, steps=4, routes=('sv.select', 'compile', 'bs4', 'sv.match-all')):
    import bs4
    D = {}
    kept = []                                # (compiled object, copy of the map it was compiled with)
    m = dict(m0)
    n_cmp = 0
    for step in range(steps):
        D.clear()
        D.update(m)
        case.nsmap = dict(m)                 # what the reference is told (a copy; never handed to soupsieve)
        route = rng.choice(routes)
        tgt = case.target_obj
        if route == 'compile':
            def api():
                c = sv.compile(text, D)
                kept.append((c, dict(m)))
                return c.select(tgt)
        elif route == 'bs4' and isinstance(tgt, bs4.Tag):
            def api():
                return tgt.select(text, namespaces=D)
        elif route == 'sv.match-all':
            def api():
                return [e for e in tgt.descendants if isinstance(e, bs4.Tag) and sv.match(text, e, D)]
            if ':scope' in text or '&' in text:
                route = 'sv.select'
        if route in ('sv.select', 'bs4') and not (route == 'bs4' and isinstance(tgt, bs4.Tag)):
            def api():
                return sv.select(text, tgt, D)
        st, info = cases.compare_select(sv, case, ast, text, api=api, check_structure=False)
        n_cmp += 1
        if st in ('DISAGREE', 'RAISE'):
            return {'what': '%s at step %d of an in-place sequence (route %s): the caller\'s one dict now holds %r -> %s' % (
                st, step, route, m, ('got %s, expected %s' % (info.get('got'), info.get('exp'))) if st == 'DISAGREE' else info.get('exc')),
                'step': step, 'text': text, 'n': n_cmp, 'maps': [m0, m]}
        # compiled objects made earlier are values: they still mean what they meant when compiled
        if kept and rng.random() < .7:
            c, mk = rng.choice(kept)
            case.nsmap = dict(mk)
            st, info = cases.compare_select(sv, case, ast, text, api=lambda c=c: c.select(tgt), check_structure=False)
            n_cmp += 1
            if st in ('DISAGREE', 'RAISE'):
                return {'what': '%s: a compiled object made when the caller\'s dict held %r is used after the dict was changed in place to %r '
                                '-> %s' % (st, mk, m, ('got %s, expected %s' % (info.get('got'), info.get('exp'))) if st == 'DISAGREE' else info.get('exc')),
                        'step': step, 'text': text, 'n': n_cmp, 'maps': [mk, m]}
        vs = variants(rng, m, pool)
        if not vs:
            break
        m = rng.choice(vs)
    return {'ok': True, 'n': n_cmp}
