"""Selector AST, generators and renderers.

The reference evaluates the AST, soupsieve gets the text; no selector parser is written for the oracle.

AST
    list      = [complex, ...]
    complex   = [compound, comb, compound, ...]            comb in ' ', '>', '+', '~'
    compound  = {'tag': None | (prefix, name), 'ids': [...], 'classes': [...],
                 'attrs': [(prefix, name, op, value, flag)], 'pseudos': [pseudo, ...]}
                prefix: None (not written) | '' (`|E`) | '*' | 'name';   name may be '*'
                op: '' | '=' | '~=' | '|=' | '^=' | '$=' | '*=' | '!=' ;  flag: None | 'i' | 's'
    pseudo    = ('root',) ('empty',) ('first-child',) ... ('scope',) ('amp',)
                ('not'|'is'|'where'|'matches', list)
                ('has', [(comb, complex), ...])
                ('nth', kind, a, b, of_list|None, spelling|None)     kind: nth-child nth-last-child nth-of-type nth-last-of-type
                ('lang', [range, ...]) ('contains', own, [text, ...], alias) ('dir', 'ltr'|'rtl')
                ('custom', name) ('raw', text)

Rendering goes through a token list so that C09 can respell at every slot:
    ('p', text) punctuation | ('id', value) identifier | ('val', value) value (identifier or string)
    ('str', value) string only | ('kw', text) ASCII-case-insensitive keyword | ('num', text)
    ('o',) optional whitespace/comment slot | ('r',) required whitespace (descendant combinator, separators)
"""

STRUCT = ['root', 'empty', 'first-child', 'last-child', 'only-child', 'first-of-type', 'last-of-type', 'only-of-type']
OPS = ['', '=', '~=', '|=', '^=', '$=', '*=', '!=']
COMBS = [' ', '>', '+', '~']


# ---------------------------------------------------------------------------------------------------------
# serialisation of identifiers and strings (own implementation of CSSOM "serialize an identifier")

def ser_ident(s):
    out = []
    n = len(s)
    if n == 0:
        raise ValueError('empty identifier cannot be written')
    if s == '-':
        return '\\-'
    for i, c in enumerate(s):
        o = ord(c)
        if o == 0:
            out.append('�')
        elif o <= 0x1f or o == 0x7f or 0x80 <= o <= 0x9f:
            out.append('\\%x ' % o)
        elif (i == 0 or (i == 1 and s[0] == '-')) and c.isdigit() and o < 0x80:
            out.append('\\%x ' % o)
        elif o >= 0xa0 or c in '-_' or (o < 0x80 and c.isalnum()):
            out.append(c)
        else:
            out.append('\\' + c)
    return ''.join(out)


def ser_string(s, q='"'):
    out = [q]
    for c in s:
        o = ord(c)
        if c == q or c == '\\':
            out.append('\\' + c)
        elif c in '\n\r\f' or o == 0:
            out.append('\\%x ' % o if o else '�')
        else:
            out.append(c)
    out.append(q)
    return ''.join(out)


def identable(s):
    return len(s) > 0


# ---------------------------------------------------------------------------------------------------------
# tokens

def tok_list(l, top=True):
    out = []
    if top:
        out.append(('o',))
    for i, cx in enumerate(l):
        if i:
            out += [('o',), ('p', ','), ('o',)]
        out += tok_complex(cx)
    if top:
        out.append(('o',))
    return out


def tok_complex(cx):
    out = []
    for part in cx:
        if isinstance(part, dict):
            out += tok_compound(part)
        elif part == ' ':
            out.append(('r',))
        else:
            out += [('o',), ('p', part), ('o',)]
    return out


def tok_nsname(prefix, name, star_ok=True):
    out = []
    if prefix is not None:
        if prefix == '*':
            out.append(('p', '*'))
        elif prefix != '':
            out.append(('id', prefix))
        out.append(('p', '|'))
    out.append(('p', '*') if (name == '*' and star_ok) else ('id', name))
    return out


def tok_nth(a, b, spelling=None):
    """An+B tokens.  spelling: None (canonical) or a ready token list chosen by the C02/C09 drivers."""
    if spelling:
        return [tuple(t) for t in spelling]
    if a == 0:
        return [('num', str(b))]
    out = []
    if a == 1:
        out.append(('kw', 'n'))
    elif a == -1:
        out += [('num', '-'), ('kw', 'n')]
    else:
        out += [('num', str(a)), ('kw', 'n')]
    if b:
        out += [('o',), ('p', '-' if b < 0 else '+'), ('o',), ('num', str(abs(b)))]
    return out


def tok_pseudo(p):
    k = p[0]
    if k in STRUCT or k in ('scope',):
        return [('p', ':'), ('kw', k)]
    if k == 'amp':
        return [('p', '&')]
    if k in ('not', 'is', 'where', 'matches'):
        return [('p', ':'), ('kw', k), ('p', '('), ('o',)] + tok_list(p[1], top=False) + [('o',), ('p', ')')]
    if k == 'has':
        out = [('p', ':'), ('kw', 'has'), ('p', '('), ('o',)]
        for i, (cb, cx) in enumerate(p[1]):
            if i:
                out += [('o',), ('p', ','), ('o',)]
            if cb != ' ':
                out += [('p', cb), ('o',)]
            out += tok_complex(cx)
        return out + [('o',), ('p', ')')]
    if k == 'nth':
        kind, a, b, of, sp = p[1], p[2], p[3], p[4], (p[5] if len(p) > 5 else None)
        out = [('p', ':'), ('kw', kind), ('p', '('), ('o',)] + tok_nth(a, b, sp)
        if of is not None:
            out += [('r',), ('kw', 'of'), ('r',)] + tok_list(of, top=False)
        return out + [('o',), ('p', ')')]
    if k == 'lang':
        out = [('p', ':'), ('kw', 'lang'), ('p', '('), ('o',)]
        for i, r in enumerate(p[1]):
            if i:
                out += [('o',), ('p', ','), ('o',)]
            out.append(('val', r))
        return out + [('o',), ('p', ')')]
    if k == 'contains':
        own, texts = p[1], p[2]
        alias = p[3] if len(p) > 3 and p[3] else ('-soup-contains-own' if own else '-soup-contains')
        out = [('p', ':'), ('kw', alias), ('p', '('), ('o',)]
        for i, r in enumerate(texts):
            if i:
                out += [('o',), ('p', ','), ('o',)]
            out.append(('val', r))
        return out + [('o',), ('p', ')')]
    if k == 'dir':
        return [('p', ':'), ('kw', 'dir'), ('p', '('), ('o',), ('kw', p[1]), ('o',), ('p', ')')]
    if k == 'custom':
        return [('p', ':'), ('id', p[1])]
    if k == 'pc':                                  # plain pseudo-class by name (state pseudo-classes etc.)
        return [('p', ':'), ('kw', p[1])]
    if k == 'raw':
        return [('p', p[1])]
    raise ValueError(p)


def tok_compound(c):
    out = []
    if c.get('tag') is not None:
        out += tok_nsname(c['tag'][0], c['tag'][1])
    for i in c.get('ids', ()):
        out += [('p', '#'), ('id', i)]
    for k in c.get('classes', ()):
        out += [('p', '.'), ('id', k)]
    for (pf, a, op, v, f) in c.get('attrs', ()):
        out += [('p', '['), ('o',)] + tok_nsname(pf, a, star_ok=False)
        if op:
            out += [('o',), ('p', op), ('o',), ('val', v)]
            if f:
                out += [('f',), ('kw', f)]          # 'f': separator before the flag (required after a bare identifier)
        out += [('o',), ('p', ']')]
    for p in c.get('pseudos', ()):
        out += tok_pseudo(p)
    if not out:
        out = [('p', '*')]
    return out


def render_tokens(toks, prefer_string=True):
    out = []
    last_bare = False
    for t in toks:
        k = t[0]
        bare = False
        if k in ('p', 'kw', 'num'):
            out.append(t[1])
        elif k == 'id':
            out.append(ser_ident(t[1]))
        elif k == 'str':
            out.append(ser_string(t[1]))
        elif k == 'val':
            if prefer_string or not identable(t[1]):
                out.append(ser_string(t[1]))
            else:
                out.append(ser_ident(t[1]))
                bare = True
        elif k == 'r':
            out.append(' ')
        elif k == 'f':
            out.append(' ')
        elif k == 'o':
            pass
        last_bare = bare
    return ''.join(out)


def render(l):
    return render_tokens(tok_list(l))


def render_complex(cx):
    return render_tokens(tok_complex(cx))


def render_compound(c):
    return render_tokens(tok_compound(c))


# ---------------------------------------------------------------------------------------------------------
# generators

class Cfg:
    """Grammar / vocabulary knobs for the random selector generator."""

    def __init__(self, **kw):
        from . import trees
        self.names = trees.NAMES + ['html', 'body']
        self.ids = trees.IDS
        self.classes = trees.CLASSES
        self.vals = trees.VALS
        self.attrs = trees.ATTRS + ['id', 'class', 'TITLE']
        self.struct = STRUCT
        self.logical = ['not', 'is', 'where', 'matches', 'has']
        self.p_tag = .45
        self.p_star = .15
        self.p_id = .2
        self.p_class = .3
        self.p_attr = .3
        self.p_struct = .3
        self.p_logical = .35
        self.p_more = .4            # another compound in a complex selector
        self.max_compounds = 4
        self.flags = [None, None, 'i', 's']
        self.ops = OPS
        self.extra = []             # list of (probability, callable(rng, depth) -> pseudo) for property-specific atoms
        self.tag_prefixes = [None]  # tag namespace prefixes to draw from
        self.attr_prefixes = [None]
        self.list_sizes = [1, 1, 1, 2, 3]
        self.case_names = False     # random case variants of names
        self.__dict__.update(kw)


def tune_to_tree(cfg, top_sn, rng, keep=.3):
    """A copy of cfg whose vocabulary is mostly drawn from the tree itself (names, ids, classes, attribute names and
    values that actually occur), so that far fewer generated selectors designate nothing."""
    import copy
    names, ids, classes, attrs, vals = set(), set(), set(), set(), set()

    def rec(n):
        for k in n.kids:
            if k.kind == 'el':
                names.add(k.name)
                for (key, ans, alocal, v) in k.attrs:
                    if ans is not None or ':' in key:
                        continue
                    if key == 'id' and isinstance(v, str):
                        ids.add(v)
                    elif key == 'class':
                        classes.update(v if isinstance(v, (list, tuple)) else str(v).split())
                    else:
                        attrs.add(key)
                        if isinstance(v, str):
                            vals.add(v)
                            vals.update(w for w in v.split() if w)
                rec(k)
    rec(top_sn)
    c = copy.copy(cfg)

    def mix(own, base):
        own = [x for x in own if isinstance(x, str) and x != ''] or list(base)
        base = list(base)
        k = max(1, int(len(own) * keep))
        return own + rng.sample(base, min(len(base), k))
    c.names = mix(names, cfg.names)
    c.ids = mix(ids, cfg.ids)
    c.classes = mix(classes, cfg.classes)
    c.attrs = mix(attrs, cfg.attrs)
    c.vals = mix(vals, cfg.vals) + ['']
    return c


def _case(rng, s):
    r = rng.random()
    if r < .5:
        return s
    if r < .7:
        return s.upper()
    return ''.join(c.upper() if rng.random() < .5 else c for c in s)


def gen_compound(rng, depth, cfg):
    c = {'tag': None, 'ids': [], 'classes': [], 'attrs': [], 'pseudos': []}
    r = rng.random()
    n = 0
    if r < cfg.p_tag:
        nm = rng.choice(cfg.names)
        if cfg.case_names:
            nm = _case(rng, nm)
        c['tag'] = (rng.choice(cfg.tag_prefixes), nm)
    elif r < cfg.p_tag + cfg.p_star:
        c['tag'] = (rng.choice(cfg.tag_prefixes), '*')
    if rng.random() < cfg.p_id:
        c['ids'].append(rng.choice(cfg.ids))
        n += 1
    if rng.random() < cfg.p_class:
        c['classes'].append(rng.choice(cfg.classes))
        n += 1
    if rng.random() < cfg.p_attr:
        op = rng.choice(cfg.ops)
        a = rng.choice(cfg.attrs)
        if cfg.case_names:
            a = _case(rng, a)
        c['attrs'].append((rng.choice(cfg.attr_prefixes), a, op, rng.choice(cfg.vals) if op else None,
                           rng.choice(cfg.flags) if op else None))
        n += 1
    if cfg.struct and rng.random() < cfg.p_struct:
        c['pseudos'].append((rng.choice(cfg.struct),))
        n += 1
    for prob, fn in cfg.extra:
        if rng.random() < prob:
            p = fn(rng, depth)
            if p is not None:
                c['pseudos'].append(p)
                n += 1
    if depth > 0 and cfg.logical and rng.random() < cfg.p_logical:
        k = rng.choice(cfg.logical)
        if k == 'has':
            c['pseudos'].append(('has', [(rng.choice(COMBS), gen_complex(rng, depth - 1, cfg))
                                         for _ in range(rng.randint(1, 2))]))
        else:
            c['pseudos'].append((k, [gen_complex(rng, depth - 1, cfg) for _ in range(rng.randint(1, 2))]))
        n += 1
    if c['tag'] is None and n == 0:
        c['tag'] = (rng.choice(cfg.tag_prefixes), rng.choice(cfg.names + ['*']))
    return c


def gen_complex(rng, depth, cfg):
    out = [gen_compound(rng, depth, cfg)]
    while rng.random() < cfg.p_more and (len(out) + 1) // 2 < cfg.max_compounds:
        out.append(rng.choice(COMBS))
        out.append(gen_compound(rng, depth, cfg))
    return out


def gen_list(rng, depth=2, cfg=None):
    cfg = cfg or Cfg()
    return [gen_complex(rng, depth, cfg) for _ in range(rng.choice(cfg.list_sizes))]


def shape(l):
    """Selector *shape* signature: structure with vocabulary abstracted (used for distinct_nontrivial)."""
    def sc(c):
        return ('T' if c.get('tag') else '', len(c.get('ids', ())), len(c.get('classes', ())),
                tuple((bool(pf), op, f) for (pf, a, op, v, f) in c.get('attrs', ())),
                tuple(sp(p) for p in c.get('pseudos', ())))

    def sp(p):
        if p[0] in ('not', 'is', 'where', 'matches'):
            return (p[0], tuple(sx(x) for x in p[1]))
        if p[0] == 'has':
            return ('has', tuple((cb, sx(x)) for cb, x in p[1]))
        if p[0] == 'nth':
            return ('nth', p[1], p[4] is not None)
        return (p[0],)

    def sx(cx):
        return tuple(sc(x) if isinstance(x, dict) else x for x in cx)
    return tuple(sx(cx) for cx in l)
