"""Child of the C15 cross-process unit: unpickle compiled selectors written by another interpreter (other hash seed) and
compare them with selectors compiled here from the same arguments.  usage: python xproc_child.py <in.pickle> <out.json>"""
import json
import pickle
import sys
import warnings

warnings.simplefilter('ignore')
import soupsieve as sv  # noqa: E402
import bs4  # noqa: E402

data = pickle.load(open(sys.argv[1], 'rb'))
doc = bs4.BeautifulSoup(data['markup'], 'html.parser')
bad = []
n = 0
for args, blob in data['items']:
    n += 1
    pat, ns, cu, fl = args
    try:
        loaded = pickle.loads(blob)
        fresh = sv.compile(pat, ns, fl, custom=cu)
    except Exception as ex:  # noqa: BLE001
        bad.append('%r: %s: %s' % (args, type(ex).__name__, str(ex)[:80]))
        continue
    if not (loaded == fresh and fresh == loaded):
        bad.append('%r: unpickled object is not equal to a compile of the same arguments' % (args,))
    elif hash(loaded) != hash(fresh):
        bad.append('%r: equal objects with different hashes after crossing a process boundary' % (args,))
    elif loaded not in {fresh} or fresh not in {loaded: 1}:
        bad.append('%r: unpickled object cannot be found in a set/dict holding an equal one' % (args,))
    else:
        try:
            if [x.get('id') for x in loaded.select(doc)] != [x.get('id') for x in fresh.select(doc)]:
                bad.append('%r: unpickled object selects different elements' % (args,))
        except Exception as ex:  # noqa: BLE001
            bad.append('%r: select on unpickled object: %r' % (args, ex))
json.dump({'n': n, 'bad': bad[:10], 'file': sv.__file__}, open(sys.argv[2], 'w'))
