"""Fresh-interpreter child for C16.  usage: python -B child.py <spec.json> <out.json>

Installs an audit hook and a warnings recorder *before* the first import, executes the import statements of the spec,
then runs the queries, and writes everything observed to <out.json>.  Must itself print nothing.
"""
import json
import os
import sys
import threading
import warnings

spec = json.load(open(sys.argv[1]))
out = {'imports': [], 'side_effects': [], 'warnings': [], 'errors': [], 'results': {}, 'state_changed': []}
_phase = ['import']


def hook(event, args):
    try:
        if event == 'import':
            if _phase[0] == 'import' and (args[0].startswith('bs4') or args[0].startswith('soupsieve')):
                out['imports'].append(args[0])
        elif _phase[0] == 'import':
            if event == 'open':
                mode = args[1] if len(args) > 1 else ''
                if isinstance(mode, str) and any(c in mode for c in 'wax+'):
                    out['side_effects'].append('open(%r, %r)' % (args[0], mode))
            elif event.startswith(('subprocess.', 'socket.', 'os.system', 'os.exec', 'os.spawn', 'os.remove', 'os.rename', 'shutil.',
                                   'os.mkdir', 'os.rmdir', 'os.putenv', 'os.unsetenv', 'ctypes.dlopen', 'urllib.', 'webbrowser.')):
                out['side_effects'].append('%s%r' % (event, tuple(str(a)[:60] for a in args)))
    except Exception:  # noqa: BLE001
        pass


sys.addaudithook(hook)
warnings.simplefilter('always')


def showwarning(message, category, filename, lineno, file=None, line=None):
    out['warnings'].append({'category': category.__name__, 'message': str(message)[:200], 'file': filename, 'phase': _phase[0]})


warnings.showwarning = showwarning


def state():
    return {'environ': dict(os.environ), 'path': list(sys.path), 'filters': [repr(f) for f in warnings.filters],
            'recursion': sys.getrecursionlimit(), 'threads': threading.active_count(), 'cwd': os.getcwd(),
            'stdout': sys.stdout is sys.__stdout__, 'stderr': sys.stderr is sys.__stderr__,
            'excepthook': sys.excepthook is sys.__excepthook__, 'switch': sys.getswitchinterval()}


before = state()
ns = {}
for stmt in spec['imports']:
    try:
        exec(stmt, ns)
    except BaseException as ex:  # noqa: BLE001
        out['errors'].append('%s -> %s: %s' % (stmt, type(ex).__name__, str(ex)[:200]))
after = state()
for k in before:
    if before[k] != after[k]:
        out['state_changed'].append(k)
_phase[0] = 'query'
warnings.simplefilter('ignore')
try:
    import bs4
    import soupsieve
    out['soupsieve_file'] = soupsieve.__file__
    docs = [(p, spec['markup']) for p in spec['parsers']] + [('html.parser#2', spec.get('markup2'))]
    for parser, markup in docs:
        if markup is None:
            continue
        soup = bs4.BeautifulSoup(markup, parser.split('#')[0])
        # values only the bs4 API can store: plain lists with non-string members, numbers, None, bytes
        for i, t in enumerate(soup.find_all(['p', 'li'])):
            t['data-v'] = [[3, '4'], 7, None, b'x', ['a', ['b', 1]], ('a', 'b')][i % 6]
            if i % 2:
                t['class'] = ['k', 5]
        for sel in spec['selectors']:
            def lab(xs):
                return [[x.name, x.get('id')] for x in xs]
            try:
                a = lab(soup.select(sel))
            except BaseException as ex:  # noqa: BLE001
                a = 'raise %s' % type(ex).__name__
            try:
                b = lab(soupsieve.select(sel, soup))
            except BaseException as ex:  # noqa: BLE001
                b = 'raise %s' % type(ex).__name__
            out['results'][parser + ' | ' + sel] = [a, b]
            # Beautiful Soup's own wrappers with a limit / select_one / the .css accessor
            try:
                a2 = [lab(soup.select(sel, limit=2)), lab([soup.select_one(sel)] if soup.select_one(sel) is not None else []),
                      lab(list(soup.css.iselect(sel, limit=1))), lab(soup.css.filter(sel))]
            except BaseException as ex:  # noqa: BLE001
                a2 = 'raise %s' % type(ex).__name__
            try:
                one = soupsieve.select_one(sel, soup)
                b2 = [lab(soupsieve.select(sel, soup, limit=2)), lab([one] if one is not None else []),
                      lab(list(soupsieve.iselect(sel, soup, limit=1))), lab(soupsieve.filter(sel, soup))]
            except BaseException as ex:  # noqa: BLE001
                b2 = 'raise %s' % type(ex).__name__
            out['results'][parser + ' | ' + sel + ' | limit'] = [a2, b2]
    # an XML document with namespaced attributes and a document-declared prefix spelled `html`: Beautiful Soup hands the
    # document's own prefix map to soupsieve
    if spec.get('markup3'):
        soup = bs4.BeautifulSoup(spec['markup3'], 'xml')
        nsdoc = dict(soup._namespaces)

        def lab3(xs):
            return [[x.name, x.get('id')] for x in xs]
        for sel in spec['selectors3']:
            try:
                a = lab3(soup.select(sel))
            except BaseException as ex:  # noqa: BLE001
                a = 'raise %s' % type(ex).__name__
            try:
                b = lab3(soupsieve.select(sel, soup, namespaces=nsdoc))
                if '|' not in sel and lab3(soupsieve.select(sel, soup)) != b:
                    b = ['without a prefix map:'] + lab3(soupsieve.select(sel, soup))
            except BaseException as ex:  # noqa: BLE001
                b = 'raise %s' % type(ex).__name__
            out['results']['xml#3 | ' + sel] = [a, b]
    if spec.get('markup3'):
        # Beautiful Soup keeps ONE prefix map per document and passes that same dict on every call; a caller who re-binds a prefix in
        # it (same keys, same length) must get answers for the new binding at once - nothing else is compiled in between
        soup = bs4.BeautifulSoup(spec['markup3'], 'xml')
        orig = dict(soup._namespaces)
        for sel in ['html|b', 'xlink|*, html|b', '[xlink|href]', 'html|*:lang(de)']:
            for pfx, uri in (('html', 'http://www.w3.org/1999/xhtml'), ('xlink', 'urn:not-xhtml'), ('html', 'http://www.w3.org/1999/xlink')):
                try:
                    soup._namespaces.clear()
                    soup._namespaces.update(orig)
                    a1 = lab3(soup.select(sel))
                    soup._namespaces[pfx] = uri
                    a2 = lab3(soup.select(sel))
                    a = [a1, a2]
                except BaseException as ex:  # noqa: BLE001
                    a = 'raise %s' % type(ex).__name__
                try:
                    changed = dict(orig)
                    changed[pfx] = uri
                    b = [lab3(soupsieve.select(sel, soup, namespaces=dict(orig))), lab3(soupsieve.select(sel, soup, namespaces=changed))]
                except BaseException as ex:  # noqa: BLE001
                    b = 'raise %s' % type(ex).__name__
                out['results']['xml#3 in-place %s=%s | %s' % (pfx, uri, sel)] = [a, b]
    if spec.get('markup4'):
        # processing instructions, CDATA and comments as the XML builder makes them (its own subclasses of the string classes),
        # also before the root element
        soup = bs4.BeautifulSoup(spec['markup4'], 'xml')
        for sel in spec['selectors4']:
            try:
                a = [[x.name, x.get('id')] for x in soup.select(sel)]
            except BaseException as ex:  # noqa: BLE001
                a = 'raise %s' % type(ex).__name__
            try:
                b = [[x.name, x.get('id')] for x in soupsieve.select(sel, soup)]
            except BaseException as ex:  # noqa: BLE001
                b = 'raise %s' % type(ex).__name__
            out['results']['xml#4 | ' + sel] = [a, b]
except BaseException as ex:  # noqa: BLE001
    out['errors'].append('query phase -> %s: %s' % (type(ex).__name__, str(ex)[:200]))
json.dump(out, open(sys.argv[2], 'w'))
