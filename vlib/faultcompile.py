"""A compile that is cut short - by a warning turned into an error, the recursion limit of a deep caller, an asynchronous
exception at any line inside the library, a DEBUG trace whose output stream breaks, a syntax error inside a custom
definition - must leave nothing behind: the next ordinary compile with equal arguments has the outcome a fresh parse
has (an equal compiled object with the same hash, or the same exception type, message, line and column), with and
without DEBUG, and selects what the spelled-out selector selects.

Work unit: {'kind': 'faultcompile', 'theme': 'text' | 'diag' | 'generic', 'seed': ..., 'n': ...}
"""
import contextlib
import io
import random
import sys
import warnings

from vlib import monitors


class Injected(BaseException):
    pass


class BrokenOut(io.StringIO):
    def __init__(self, after):
        super().__init__()
        self.left = after

    def write(self, s):
        self.left -= 1
        if self.left < 0:
            raise BrokenPipeError('stdout closed by the reader')
        return super().write(s)


def outcome(sv, pat, custom, flags=0, ns=None):
    buf = io.StringIO()
    try:
        with contextlib.redirect_stdout(buf), warnings.catch_warnings(), monitors.cpu_budget(20):
            warnings.simplefilter('ignore')
            c = sv.compile(pat, ns, flags, custom=dict(custom))
        return ('ok', c)
    except monitors.BudgetExceeded:
        return ('budget',)
    except sv.SelectorSyntaxError as e:
        return ('err', type(e).__name__, str(e), e.line, e.col, e.context)
    except Exception as e:  # noqa: BLE001
        return ('exc', type(e).__name__, str(e)[:200])


def same(a, b, first_use=False):
    if a[0] == 'ok' and b[0] == 'ok':
        if first_use:       # the reference was computed with a table that differs in one unused entry: compare the meaning only
            return a[1].selectors == b[1].selectors and a[1].pattern == b[1].pattern and a[1].flags == b[1].flags
        return a[1] == b[1] and hash(a[1]) == hash(b[1])
    return a == b


def gen_table(rng, theme):
    w = rng.choice(['needle', 'x', 'hay'])
    base = {
        'text': [':contains("%s")' % w, 'p:contains("%s", "zz")' % w, ':-soup-contains("%s")' % w, 'span:-soup-contains-own("%s")' % w,
                 ':not(:contains("%s"))' % w, 'div :contains("%s") > *' % w],
        'diag': ['p', '> p', '', '  ', 'p >', 'div:bogus', ':is(p', 'p[', '/* c */', 'a, , b', 'p:nth-child(2n+)', 'p::first', ':--missing', 'p\n\n:not(', ':has(> )'],
        'generic': ['p.x', ':is(div, section) > p', ':not(.off)', 'li:nth-child(2)', ':checked', 'a[href]', ':lang(en)'],
    }[theme]
    names = [':--a', ':--b', ':--c', ':--Dd', ':--e-f']
    rng.shuffle(names)
    t = {}
    n = rng.randint(1, 4)
    for i in range(n):
        d = rng.choice(base)
        if i and rng.random() < .5:
            d = rng.choice(['%s, %s', ':is(%s) %s', '%s:not(%s)', '%s > %s']) % (names[i - 1], d) if d.strip() and not d.startswith('>') else names[i - 1] + ' ' + d
        t[names[i]] = d
    if theme != 'diag' and rng.random() < .3:
        t[':--plain'] = 'i'
    used = names[:n]
    pats = [rng.choice(['%s', 'div %s', '%s, b', ':is(%s, i)', ':not(%s)', 'p%s', 'section.aaaaaaaaaaaaaaaaaaaaaaaa > p%s', 'a,\n\n  b, /* c */ i%s']) % rng.choice(used)
            for _ in range(3)]
    if len(used) > 1:
        pats.append('%s %s' % (used[-1], used[0]))
    return t, pats


DOC = ('<html><body><div class="x"><p>needle <span>x</span></p><p class="off">hay</p><span>needle</span></div>'
       '<section><p lang="en">x<i>hay</i></p><ul><li>a</li><li><a href="#">needle</a></li></ul><input type="checkbox" checked></section><b>zz</b></body></html>')


def run_unit(u, sig):
    import bs4
    import soupsieve as sv
    rng = random.Random(u['seed'])
    theme = u['theme']
    res = {'evals': 0, 'sigs': [], 'viol': [], 'samples': [], 'counters': {}}
    cn = res['counters']
    sigs = set()
    soup = bs4.BeautifulSoup(DOC, 'html.parser')

    def bump(k, n=1):
        cn[k] = cn.get(k, 0) + n

    def viol(what, pat, table, cls):
        bump('VIOL')
        if len(res['viol']) < 5:
            res['viol'].append({'what': what, 'selector': pat, 'custom': table, 'class': sig('faultcompile', theme, cls), 'monitor': 'fault-compile',
                                'faultcompile': {'theme': theme, 'unit_seed': u['seed']}})

    for _ in range(u['n']):
        table, pats = gen_table(rng, theme)
        # first-use mode: the reference is computed with a table that differs in one entry nobody references, so that the
        # faulted compile is the first ever to see *its* table (a memo per table that purge() does not clear stays cold)
        first_use = rng.random() < .5
        serial = '%x-%x' % (u['seed'], _)
        rtable = dict(table)
        if first_use:
            rtable[':--ref-' + serial] = 'i'
            table = dict(table)
            table[':--use-' + serial] = 'i'
            bump('first_use_tables')
        sv.purge()
        ref = {}
        for p in pats:
            ref[p] = outcome(sv, p, rtable)
            sv.purge()
            ref[p, 'debug'] = outcome(sv, p, rtable, sv.DEBUG)
            sv.purge()
        if any(r[0] == 'budget' for r in ref.values()):
            continue
        if theme == 'diag':
            # a diagnostic points into the text it quotes: (line, col) must exist in the pattern or in one of the custom definitions,
            # and the quoted context must show that very line
            for p in pats:
                r0 = ref[p]
                if r0[0] != 'err' or r0[3] is None:
                    continue
                bump('diagnostics_located')
                line, col, ctx = r0[3], r0[4], r0[5] or ''
                fits = False
                for t in [p] + list(rtable.values()):
                    ls = t.split('\n')
                    if 1 <= line <= len(ls) and 1 <= col <= len(ls[line - 1]) + 1 and ls[line - 1] in ctx:
                        fits = True
                        break
                if not fits:
                    viol('compile(%r, custom=%r): the diagnostic says line %d, column %d and quotes %r - no text involved has such a position on the quoted line' % (
                        p, rtable, line, col, ctx[:120]), p, rtable, 'position')
        # reference selection, computed before any fault
        refsel = {}
        for p in pats:
            if ref[p][0] == 'ok':
                refsel[p] = [id(e) for e in ref[p][1].select(soup)]
        sv.purge()
        victim = rng.choice(pats)
        kind = rng.choice(['warning-error', 'recursion', 'failpoint', 'failpoint', 'debug-brokenpipe', 'syntax-first'])
        fired = None
        try:
            if kind == 'warning-error':
                with warnings.catch_warnings():
                    warnings.simplefilter('error')
                    sv.compile(victim, custom=dict(table))
            elif kind == 'recursion':
                def deep(n):
                    if n:
                        return deep(n - 1)
                    return sv.compile(victim, custom=dict(table))
                import inspect
                deep(max(1, sys.getrecursionlimit() - len(inspect.stack()) - rng.choice([4, 8, 12, 16, 24, 40, 60])))
            elif kind == 'failpoint':
                with monitors.Failpoint(None) as probe:
                    outcome(sv, victim, table)
                sv.purge()
                if probe.n:
                    with monitors.Failpoint(rng.randint(1, probe.n), rng.choice([KeyboardInterrupt, MemoryError, Injected, RecursionError])) as fp:
                        with warnings.catch_warnings():
                            warnings.simplefilter('ignore')
                            sv.compile(victim, custom=dict(table))
            elif kind == 'debug-brokenpipe':
                out = BrokenOut(rng.choice([0, 1, 2, 3, 5, 8, 13, 21]))
                with contextlib.redirect_stdout(out), warnings.catch_warnings():
                    warnings.simplefilter('ignore')
                    sv.compile(victim, flags=sv.DEBUG, custom=dict(table))
            else:
                bad = dict(table)
                bad[rng.choice(sorted(table))] = rng.choice(['p >', ':is(', '[', 'p:bogus', '> > p'])
                with warnings.catch_warnings():
                    warnings.simplefilter('ignore')
                    sv.compile(victim, custom=bad)
                    sv.compile(victim, custom=dict(table), flags=0)
        except BaseException as ex:  # noqa: BLE001 - the injected fault (or what it turned into)
            if isinstance(ex, monitors.BudgetExceeded):
                continue
            fired = type(ex).__name__
        bump('faults_attempted')
        if fired is None:
            bump('fault_did_not_fire:' + kind)
        else:
            bump('fault:%s' % kind)
            bump('fault_exception:%s' % fired)
        # ordinary calls afterwards, no purge
        order = list(pats)
        rng.shuffle(order)
        for p in order:
            for dbg in ((False, True) if rng.random() < .5 else (True, False)):
                now = outcome(sv, p, table, sv.DEBUG if dbg else 0)
                want = ref[(p, 'debug')] if dbg else ref[p]
                res['evals'] += 1
                bump('compared')
                if now[0] == 'budget':
                    continue
                if not same(now, want, first_use):
                    viol('after a compile of %r (custom=%r) was cut short by %s (%s), the ordinary compile(%r%s) gives %s; a fresh parse gives %s' % (
                        victim, table, kind, fired, p, ', DEBUG' if dbg else '', repr(now)[:200], repr(want)[:200]), p, table, kind)
                    break
                if now[0] == 'ok' and not dbg:
                    got = [id(e) for e in now[1].select(soup)]
                    if got != refsel[p]:
                        viol('after a fault (%s), %r with custom=%r selects other elements than before the fault' % (kind, p, table), p, table, kind + '-sel')
                        break
                    if got:
                        bump('nontrivial')
            else:
                continue
            break
        sigs.add(sig('fc', theme, kind, fired, len(table)))
        if len(res['samples']) < 1:
            res['samples'].append({'faultcompile': theme, 'custom': table, 'patterns': pats, 'fault': kind, 'raised': fired})
    res['sigs'] = list(sigs)
    return res


def replay(w, sig):
    fc = w['faultcompile']
    r = run_unit({'kind': 'faultcompile', 'theme': fc['theme'], 'seed': fc['unit_seed'], 'n': 400}, sig)
    for v in r['viol']:
        if v['selector'] == w['selector']:
            return dict(w, status_now=v['what'])
    return dict(w, status_now=r['viol'][0]['what']) if r['viol'] else None
