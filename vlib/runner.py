"""Check driver: plan -> worker processes (fresh interpreters importing the working tree) -> merge -> verdict.

A property module (props/Cxx.py) provides
    ID, LEVEL, RULE, ASSUMPTIONS, DESIGN_REF
    plan(tier, seed)            -> list of JSON-able work units
    run_unit(unit)              -> {'evals': int, 'sigs': [str], 'viol': [witness], 'samples': [...],
                                    'counters': {name: int}, 'notes': {...}}
    replay(witness)             -> None if the witness no longer violates, else a (possibly updated) witness
    classify(witness)           -> key of a known-finding classifier or None         (optional)
    inconclusive(counters, tier)-> list of reasons (empty = enough was observed)      (optional)
    extra_coverage(counters, notes, tier) -> dict merged into coverage                (optional)

Exit status: 0 held on everything observed; 1 violation (VIOLATION line per distinct witness class);
2 inconclusive (a monitor was not reached / a worker died / the watchdog fired).  Never folded together.
"""
import hashlib
import importlib
import json
import os
import subprocess
import sys
import tempfile
import time

from . import env, known

MAX_SIGS_PER_WORKER = 400000
MAX_VIOL_LINES = 20


def load(pid):
    return importlib.import_module('props.' + pid)


def sig(*parts):
    return hashlib.blake2b(repr(parts).encode('utf8', 'backslashreplace'), digest_size=8).hexdigest()


# ---------------------------------------------------------------------------------------------------------
# worker side

def worker_main(pid):
    env.setup()
    import warnings
    warnings.simplefilter('ignore')
    mod = load(pid)
    from .monitors import Reach
    reach = Reach()
    reach.start()
    out = sys.stdout
    real_out = os.fdopen(os.dup(1), 'w')          # results go to the real stdout whatever the unit does to sys.stdout
    units = [json.loads(l) for l in sys.stdin if l.strip()]
    sigs = set()
    for u in units:
        t0 = time.time()
        try:
            if u.get('kind') == 'lazy':             # shared workload: lazily consumed iselect with caller edits (vlib/lazy.py)
                from . import lazy
                r = lazy.run_unit(u, sig)
            elif u.get('kind') == 'faultcompile':   # shared workload: compiles cut short by a fault (vlib/faultcompile.py)
                from . import faultcompile
                r = faultcompile.run_unit(u, sig)
            else:
                r = mod.run_unit(u)
        except BaseException as ex:  # noqa: BLE001 - a crashing harness is reported, not hidden
            import traceback
            r = {'evals': 0, 'sigs': [], 'viol': [], 'samples': [], 'counters': {},
                 'harness_error': '%s: %s\n%s' % (type(ex).__name__, ex, traceback.format_exc()[-3000:])}
        r.setdefault('counters', {})
        new = [s for s in r.get('sigs', ()) if s not in sigs]
        if len(sigs) < MAX_SIGS_PER_WORKER:
            sigs.update(new)
        else:
            new = []
        r['sigs'] = new
        r['unit'] = u
        r['unit_s'] = round(time.time() - t0, 3)
        real_out.write('@@R ' + json.dumps(r, default=repr) + '\n')
        real_out.flush()
    real_out.write('@@REACH ' + json.dumps(reach.stop()) + '\n')
    real_out.flush()
    sys.stdout = out


# ---------------------------------------------------------------------------------------------------------
# main side

def _spawn(pid, units, workers, tier):
    procs = []
    shards = [[] for _ in range(workers)]
    for i, u in enumerate(units):
        shards[i % workers].append(u)
    e = dict(os.environ)
    e['PYTHONHASHSEED'] = '0'
    e['VERIF_REPO'] = env.REPO
    e['PYTHONPATH'] = env.VERIF
    e.pop('PYTHONWARNINGS', None)
    for sh in shards:
        if not sh:
            continue
        fout = tempfile.TemporaryFile(mode='w+')
        ferr = tempfile.TemporaryFile(mode='w+')
        p = subprocess.Popen([env.PYTHON, os.path.join(env.VERIF, 'check'), pid, '--worker'], stdin=subprocess.PIPE,
                             stdout=fout, stderr=ferr, text=True, env=e, cwd=env.VERIF)
        p.stdin.write(''.join(json.dumps(u) + '\n' for u in sh))
        p.stdin.close()
        procs.append((p, fout, ferr, len(sh)))
    return procs


def run_check(pid, tier, seed, workers=None, keep=None):
    t0 = time.time()
    env.setup()
    mod = load(pid)
    workers = workers or int(os.environ.get('VERIF_WORKERS', '0')) or min(16, os.cpu_count() or 4)
    units = mod.plan(tier, seed)
    watchdog = float(os.environ.get('VERIF_WATCHDOG', '0')) or (1500 if tier == 'quick' else 6 * 3600)
    procs = _spawn(pid, units, workers, tier)
    problems = []
    results = []
    reach = set()
    deadline = t0 + watchdog
    for p, fout, ferr, n in procs:
        try:
            p.wait(timeout=max(1, deadline - time.time()))
        except subprocess.TimeoutExpired:
            p.kill()
            p.wait()
            problems.append('watchdog: a worker exceeded the outer wall-clock limit of %ds' % watchdog)
        fout.seek(0)
        got = 0
        for line in fout:
            if line.startswith('@@R '):
                results.append(json.loads(line[4:]))
                got += 1
            elif line.startswith('@@REACH '):
                reach.update(json.loads(line[8:]))
        if got != n:
            ferr.seek(0)
            tail = ferr.read()[-1500:]
            problems.append('worker returned %d of %d units (exit %s): %s' % (got, n, p.returncode, tail))
        fout.close()
        ferr.close()

    counters = {}
    sigs = set()
    viol = []
    samples = []
    notes = {}
    evals = 0
    for r in results:
        evals += r.get('evals', 0)
        sigs.update(r.get('sigs', ()))
        viol.extend(r.get('viol', ()))
        for s in r.get('samples', ()):
            if len(samples) < 12:
                samples.append(s)
        for k, v in r.get('counters', {}).items():
            counters[k] = counters.get(k, 0) + v
        for k, v in r.get('notes', {}).items():
            notes.setdefault(k, [])
            if isinstance(v, list):
                for x in v:
                    if x not in notes[k] and len(notes[k]) < 400:
                        notes[k].append(x)
            else:
                notes[k].append(v)
        if r.get('harness_error'):
            problems.append('harness error in unit %r: %s' % (r.get('unit'), r['harness_error'][-1200:]))

    # ---- violations: classify, dedupe by class, write replay files
    open_findings, fixed = known.load()
    evdir = os.environ.get('VERIF_EVIDENCE_DIR') or os.path.join(env.VERIF, 'evidence')
    os.makedirs(os.path.join(evdir, 'replay'), exist_ok=True)
    classes = {}
    known_hits = {}
    for w in viol:
        key = None
        if hasattr(mod, 'classify'):
            try:
                key = mod.classify(w)
            except Exception as ex:  # noqa: BLE001
                problems.append('classifier failed: %r' % ex)
        if key is not None and (pid, key) in open_findings:
            known_hits.setdefault(key, []).append(w)
            continue
        cls = w.get('class') or sig(w.get('what'), w.get('selector'))
        classes.setdefault(cls, []).append(w)
    new_viol = 0
    lines = []
    for cls, ws in classes.items():
        ws.sort(key=lambda w: len(json.dumps(w, default=repr)))
        w = ws[0]
        w['property'] = pid
        w['n_in_class'] = len(ws)
        h = sig(pid, cls)
        path = os.path.join(evdir, 'replay', '%s-%s.json' % (pid, h))
        with open(path, 'w') as f:
            json.dump(w, f, indent=1, default=repr, ensure_ascii=True)
        new_viol += len(ws)
        if len(lines) < MAX_VIOL_LINES:
            lines.append('VIOLATION property=%s replay=%s   # %s (%d witnesses)' % (
                pid, path, str(w.get('what'))[:160].replace('\n', ' '), len(ws)))
    for key, ws in known_hits.items():
        print('KNOWN-FINDING: property=%s %s  [key=%s, %d witnesses this run]' % (
            pid, open_findings[(pid, key)], key, len(ws)))
    for l in lines:
        print(l)

    reasons = list(problems)
    if hasattr(mod, 'inconclusive'):
        reasons.extend(mod.inconclusive(counters, tier))
    distinct = len(sigs)
    if distinct < 2 and not reasons:
        reasons.append('fewer than 2 distinct non-trivial cases observed')

    coverage = {
        'evaluations': evals,
        'distinct_nontrivial': distinct,
        'rule': mod.RULE,
        'samples': samples or ['(no sample recorded)'],
        'counters': dict(sorted(counters.items())),
        'functions_reached_passive_probe': sorted(x for x in reach if any(x.startswith(a) or a in x
                                                                           for a in getattr(mod, 'ANCHORS', ()))),
        'functions_reached_total': len(reach),
        'units': len(units),
        'workers': len(procs),
        'tree_under_test': env.repo_state(),
        'known_findings_hit': {k: len(v) for k, v in known_hits.items()},
        'verdict': 'violated' if new_viol else ('inconclusive' if reasons else 'held on what was observed'),
        'inconclusive_reasons': reasons,
    }
    missing = [a for a in getattr(mod, 'ANCHORS', ()) if not any(a in x for x in reach)]
    coverage['probe_unreached'] = missing
    if hasattr(mod, 'extra_coverage'):
        coverage.update(mod.extra_coverage(counters, notes, tier))
    ev = {
        'property_id': pid,
        'tier': tier,
        'seed': seed,
        'level': getattr(mod, 'LEVEL', 'exploration'),
        'coverage': coverage,
        'assumptions': list(getattr(mod, 'ASSUMPTIONS', ())),
        'wall_s': round(time.time() - t0, 2),
        'violations': new_viol,
    }
    path = os.path.join(evdir, '%s.json' % pid)
    with open(path + '.tmp', 'w') as f:
        json.dump(ev, f, indent=1, default=repr, ensure_ascii=True)
    os.replace(path + '.tmp', path)

    print('%s tier=%s seed=%d: %d evaluations, %d distinct non-trivial, %d violations%s, %.1fs  -> %s' % (
        pid, tier, seed, evals, distinct, new_viol,
        (' (+%d known)' % sum(len(v) for v in known_hits.values())) if known_hits else '', time.time() - t0,
        coverage['verdict']))
    interesting = {k: v for k, v in counters.items()}
    print('  counters: ' + ', '.join('%s=%s' % kv for kv in sorted(interesting.items())))
    if new_viol:
        return 1
    if reasons:
        for r in reasons:
            print('INCONCLUSIVE property=%s reason=%s' % (pid, r.replace('\n', ' | ')[:1500]))
        return 2
    return 0


def run_replay(pid, path):
    env.setup()
    import warnings
    warnings.simplefilter('ignore')
    mod = load(pid)
    with open(path) as f:
        w = json.load(f)
    if 'lazy' in w:
        from . import lazy
        r = lazy.replay(w, sig)
    elif 'faultcompile' in w:
        from . import faultcompile
        r = faultcompile.replay(w, sig)
    else:
        r = mod.replay(w)
    if r is None:
        print('replay: %s no longer violates %s on %s' % (path, pid, env.REPO))
        return 0
    print('VIOLATION property=%s replay=%s   # %s' % (pid, path, str(r.get('what'))[:200]))
    print(json.dumps(r, indent=1, default=repr)[:4000])
    return 1
