"""Lazily consumed iselect() with the caller editing the tree between two items.

`iselect` is a generator: the caller may take some items, change the document, and go on.  What the generator yields
after the change must be what the selector designates on the tree *as it is now* (nothing remembered from before the
change may leak into the rest of the iteration): with `last` the last element delivered before the change,

    rest of the iteration == [e for e in select(sel, scope) on the current tree if e comes after `last` in document order]

The law is exact under these conditions, which the callers of `lazy_law` keep:
  * the change does not touch what soupsieve itself documents as remembered for one call: the <meta http-equiv=
    content-language> pragma, the default button of a form, the checked state of radio groups (`:lang` via <meta>,
    `:default`, `:indeterminate` memoise per call by design - anchors of C04);
  * a structural change does not detach `last`, an ancestor of `last` or the node right after `last` (Beautiful Soup's
    `descendants` has already read that successor when it yielded `last`).

Returns ('skip', reason) | ('held', n_compared) | ('viol', description).
"""
import bs4

from vlib import monitors


def tags_of(scope):
    return [e for e in scope.descendants if isinstance(e, bs4.Tag)]


def safe_to_detach(node, last):
    """May `node` be detached/moved while an iteration stands on `last`?"""
    if last is None:
        return False
    if node is last or node is last.next_element:
        return False
    p = last
    while p is not None:
        if p is node:
            return False
        p = p.parent
    return True


def lazy_law(sv, sel, scope, edit, after=1, nsmap=None, flags=0, custom=None, compiled=False, budget=20.0, kw=None):
    kw = dict(kw or {})
    if custom is not None:
        kw['custom'] = custom

    def start():
        if compiled:
            return sv.compile(sel, nsmap, flags, **kw).iselect(scope)
        return sv.iselect(sel, scope, nsmap, 0, flags, **kw)

    st, it = monitors.guarded_call(start, budget=budget)
    if st != 'ok':
        return 'skip', 'iselect not started: %s' % st
    before = []

    def take():
        for _ in range(after):
            before.append(next(it))
    st, r = monitors.guarded_call(take, budget=budget)
    if st != 'ok':
        return 'skip', ('fewer than %d items' % after) if isinstance(r, StopIteration) or st == 'raise' else st
    last = before[-1]
    if edit(last) is False:
        it.close()
        return 'skip', 'edit not applicable'
    st, rest = monitors.guarded_call(lambda: list(it), budget=budget)
    if st == 'budget':
        return 'skip', 'budget'
    if st != 'ok':
        return 'viol', 'continuing iselect(%r) after the caller\'s edit raised %r' % (sel, rest)
    st, now = monitors.guarded_call(sv.select, sel, scope, nsmap, 0, flags, budget=budget, **kw)
    if st != 'ok':
        return 'skip', 'fresh select: %s' % st
    order = {id(e): i for i, e in enumerate(tags_of(scope))}
    if id(last) not in order:
        return 'skip', 'last delivered element left the scope'
    pos = order[id(last)]
    want = [e for e in now if order.get(id(e), -1) > pos]
    if [id(e) for e in rest] != [id(e) for e in want]:
        def show(lst):
            return [(e.name, order.get(id(e))) for e in lst]
        return 'viol', ('iselect(%r): after %d item(s) the caller edited the tree; the rest of the iteration is %r, but on the tree as it is '
                        'now the selector designates %r after element %d' % (sel, after, show(rest), show(want), pos))
    return 'held', len(want) + 1


# ---------------------------------------------------------------------------------------------------------------------
# Themed workloads (one per property that has per-element facts a matcher might be tempted to remember)

WORDS = ['needle', 'hay', 'x', 'אב', 'abc', 'Needle', '']
LANGS = ['en', 'en-US', 'fr', 'de-DE', 'de', '', 'EN']


def _attrs(d):
    return ''.join(' %s="%s"' % kv for kv in d.items())


def doc_generic(rng, theme):
    """Small HTML documents in which the same compound is re-evaluated for many candidates (containers with several
    children and grandchildren, attributes of the theme sprinkled over all levels)."""
    def attrs(level):
        d = {}
        if rng.random() < .5:
            d['class'] = rng.choice(['x', 'y', 'x y', 'on', 'off'])
        if theme == 'lang' and rng.random() < (.6 if level < 2 else .3):
            d['lang'] = rng.choice(LANGS)
        if theme == 'generic' and rng.random() < .3:
            d[rng.choice(['id', 'title', 'data-k'])] = rng.choice(['a', 'b', 'Zq'])
        return d

    def text():
        return rng.choice(WORDS) if theme in ('text', 'generic') and rng.random() < .7 else ''

    def inputs():
        out = []
        for _ in range(rng.randint(1, 3)):
            t = rng.choice(['number', 'range', 'date', 'month', 'week', 'time', 'text', 'checkbox'])
            v = {'number': ['1', '5', '9', 'x'], 'range': ['1', '5', '9'], 'date': ['2020-01-01', '2021-06-15', '1999-12-31'],
                 'month': ['2020-01', '2021-06'], 'week': ['2020-W01', '2021-W20'], 'time': ['00:00', '12:30', '23:59'], 'text': ['5'], 'checkbox': ['on']}[t]
            d = {'type': t}
            for k in ('value', 'min', 'max'):
                if rng.random() < .7:
                    d[k] = rng.choice(v)
            for k in ('checked', 'disabled', 'required', 'readonly', 'placeholder'):
                if rng.random() < .2:
                    d[k] = ''
            out.append('<input%s>' % _attrs(d))
        return ''.join(out)

    parts = []
    for _i in range(rng.randint(2, 4)):
        kids = []
        for _j in range(rng.randint(2, 5)):
            tag = rng.choice(['p', 'span', 'li', 'a', 'b'])
            inner = text()
            if rng.random() < .5:
                inner += '<%s%s>%s</%s>' % ('span', _attrs(attrs(3)), text(), 'span')
            if theme in ('range', 'state') and rng.random() < .5:
                inner = inputs() + inner
            kids.append('<%s%s>%s</%s>' % (tag, _attrs(attrs(2)), inner, tag))
        if theme in ('range', 'state'):
            kids.insert(rng.randrange(len(kids) + 1), inputs())
        cont = rng.choice(['div', 'ul', 'section', 'form' if theme in ('range', 'state') else 'div', 'fieldset' if theme == 'state' else 'div'])
        parts.append('<%s%s>%s%s</%s>' % (cont, _attrs(attrs(1)), text(), ''.join(kids), cont))
    return '<html%s><head></head><body%s>%s</body></html>' % (_attrs(attrs(0)), _attrs(attrs(0)), ''.join(parts))


def _fact(rng, theme):
    if theme == 'lang':
        return rng.choice([':lang(en)', ':lang(fr)', ':lang(de)', ':lang("*-US")', ':lang("")', ':lang(en, fr)', ':not(:lang(en))', ':lang(DE)'])
    if theme == 'text':
        w = rng.choice(['needle', 'hay', 'x', 'abc', 'אב'])
        return rng.choice([':-soup-contains("%s")', ':-soup-contains-own("%s")', ':not(:-soup-contains("%s"))', ':-soup-contains("%s", "zzz")']) % w \
            if rng.random() < .85 else rng.choice([':empty', ':not(:empty)', ':dir(rtl)', ':dir(ltr)'])
    if theme == 'nth':
        return rng.choice([':nth-child(2)', ':nth-child(odd)', ':nth-last-child(1)', ':nth-child(2 of .x)', ':nth-last-child(1 of .x, .y)', ':first-of-type',
                           ':only-child', ':nth-of-type(2)', ':nth-last-of-type(2)', ':first-child', ':last-child', ':only-of-type', ':nth-child(-n+2)',
                           ':nth-child(n+2 of :not(.off))', ':not(:nth-child(2))'])
    if theme == 'range':
        return rng.choice([':in-range', ':out-of-range', ':not(:in-range)', ':not(:out-of-range)', 'input:not(:in-range, :out-of-range)'])
    if theme == 'state':
        return rng.choice([':checked', ':disabled', ':enabled', ':required', ':optional', ':read-write', ':read-only', ':placeholder-shown', ':not(:checked)',
                           'input:not(:disabled)'])
    return rng.choice(['.x', '.on', ':not(.off)', '[title]', '[id=a]', '.x.y', '[class~=y]', ':is(.x, .on)', '[data-k=Zq]', '[title=Zq i]', '#b'])


def sel_for(rng, theme):
    """The fact sits where it is re-evaluated for many candidates: left of a combinator, inside :has()/:not()/:is()."""
    f = _fact(rng, theme)
    t = rng.choice(['', '', '', 'div', 'p', '*'])
    if theme in ('range', 'state') and not f.startswith('input'):
        t = rng.choice(['', 'input', '*'])
    c = (t + f) if not f.startswith('input') else f
    shape = rng.choice(['%s *', '%s > *', '%s ~ *', '%s + *', ':has(> %s) *', ':has(%s) > *', ':not(%s) > *', ':is(%s, .zz) *', '%s', '%s, b', ':is(%s) ~ :is(*)',
                        '* > %s', ':has(~ %s)', ':not(:has(%s))'])
    return shape % c


def make_edit(rng, theme, soup, scope, sel=''):
    """Returns edit(last) -> None | False.  Never touches <meta>, submit buttons or radio groups (per-call memos by design)."""
    import re
    quoted = re.findall(r'"([^"]+)"', sel)
    words = WORDS + quoted * 6 + ['zz'] * 3           # the selector's own word, so that the edit can flip the fact
    classes = re.findall(r'\.([a-z]+)', sel)
    keys = re.findall(r'\[([a-z-]+)', sel)

    def edit(last):
        els = [e for e in soup.descendants if isinstance(e, bs4.Tag)]
        anc = []
        p = last.parent
        while p is not None and isinstance(p, bs4.Tag) and not isinstance(p, bs4.BeautifulSoup):
            anc.append(p)
            p = p.parent
        sibs = [s for s in (last.parent.contents if last.parent is not None else []) if isinstance(s, bs4.Tag) and s is not last]
        pool = rng.choice([anc, anc, sibs, els]) or els
        e = rng.choice(pool)
        if theme == 'lang':
            if 'lang' in e.attrs and rng.random() < .4:
                del e['lang']
            else:
                e['lang'] = rng.choice(LANGS)
        elif theme == 'text':
            strings = [s for s in soup.find_all(string=True) if s is not last.next_element and type(s) is bs4.NavigableString]
            r = rng.random()
            if r < .5 and strings:
                s = rng.choice([x for x in strings if any(a is x.parent for a in anc + [last] + sibs)] or strings)
                s.replace_with(bs4.NavigableString(rng.choice(words + ['needle hay', 'xx'])))
            elif r < .8:
                e.append(bs4.NavigableString(rng.choice(words)))
            else:
                e = rng.choice(anc or els)
                e.insert(0, bs4.NavigableString(rng.choice(WORDS))) if e.contents and e.contents[0] is not last.next_element and last.next_element is not e.contents[0] and e is not last else e.append(bs4.NavigableString('needle'))
        elif theme == 'nth':
            r = rng.random()
            cand = [x for x in (sibs + [s for a in anc for s in a.parent.contents if isinstance(s, bs4.Tag)] if rng.random() < .8 else els)
                    if safe_to_detach(x, last) and x.name not in ('html', 'body', 'head') and any(a is scope for a in x.parents)]
            # (only elements inside the scope: the node at which Beautiful Soup's walk stops lies outside and must stay linked)
            if r < .45 and cand:
                rng.choice(cand).extract()
            elif r < .8:
                # a new element before an element the iteration has already passed (or before `last` itself)
                tgt = rng.choice([x for x in [last] + anc if x.name not in ('html', 'body', 'head')] or [last])
                new = soup.new_tag(rng.choice(['li', 'p', 'span', tgt.name]))
                if rng.random() < .5:
                    new['class'] = rng.choice(['x', 'y', 'off'])
                tgt.insert_before(new)
            else:
                e['class'] = rng.choice(['x', 'y', 'off', 'x y'])
        elif theme in ('range', 'state'):
            ins = [x for x in els if x.name == 'input'] or els
            e = rng.choice(ins)
            if theme == 'range':
                k = rng.choice(['value', 'min', 'max', 'type'])
                if k in e.attrs and rng.random() < .3:
                    del e[k]
                else:
                    e[k] = rng.choice(['1', '5', '9', '2020-01-01', '2021-06', '2020-W01', '00:00', '12:30', 'x'] if k != 'type' else
                                      ['number', 'range', 'date', 'month', 'week', 'time', 'text'])
            else:
                if rng.random() < .3:
                    e = rng.choice([x for x in els if x.name in ('fieldset', 'form', 'input')] or els)
                k = rng.choice(['checked', 'disabled', 'required', 'readonly', 'placeholder'] if e.name == 'input' else ['disabled'])
                if e.name == 'input' and e.get('type') == 'radio':
                    return False
                if k in e.attrs:
                    del e[k]
                else:
                    e[k] = ''
        else:
            k = rng.choice(['class', 'class', 'id', 'title', 'data-k'] + keys * 4 + (['class'] * 4 if classes else []) + (['id'] * 4 if '#' in sel else []))
            if k in e.attrs and rng.random() < .5:
                del e[k]
            else:
                e[k] = rng.choice(['x', 'on', 'off', 'x y', 'a', 'b', 'Zq', 'zq'] + classes * 3)
        return None
    return edit


def run_structural(u, sig):
    """C08's reading of the same workload: whatever the caller does to the tree between two items - detach, destroy or
    replace the element just delivered, its parent, its next sibling, any other element; insert new ones - continuing the
    iteration never raises (what it yields then is Beautiful Soup's business as much as soupsieve's and is not judged)."""
    import random
    import soupsieve as sv
    rng = random.Random(u['seed'])
    res = {'evals': 0, 'sigs': [], 'viol': [], 'samples': [], 'counters': {}}
    cn = res['counters']
    sigs = set()
    for _ in range(u['n']):
        theme = rng.choice(['generic', 'text', 'nth', 'state', 'lang'])
        markup = doc_generic(rng, theme)
        parser = rng.choice(['html.parser', 'html.parser', 'lxml', 'html5lib'])
        for _q in range(4):
            sel = sel_for(rng, theme) if rng.random() < .7 else rng.choice(['*', 'p', 'span', 'div *', ':not(b)', 'li, a, span'])
            soup = bs4.BeautifulSoup(markup, parser)
            scope = soup if rng.random() < .6 else (rng.choice(soup.find_all(['div', 'ul', 'section', 'form', 'body'])) or soup)
            state = rng.getstate()
            actions = []

            def go():
                it = sv.iselect(sel, scope) if rng.random() < .5 else sv.compile(sel).iselect(scope)
                n = 0
                for e in it:
                    n += 1
                    if n > 200:
                        break
                    r = rng.random()
                    if r > .6:
                        continue
                    who = rng.choice(['self', 'self', 'self', 'parent', 'next', 'prev', 'other', 'child'])
                    tgt = {'self': e, 'parent': e.parent, 'next': e.find_next_sibling(), 'prev': e.find_previous_sibling(),
                           'other': rng.choice(soup.find_all(True)), 'child': e.find(True)}[who]
                    if tgt is None or isinstance(tgt, bs4.BeautifulSoup) or tgt is scope or tgt.name in ('html',):
                        continue
                    act = rng.choice(['extract', 'extract', 'replace_with', 'insert_after', 'insert_before', 'wrap', 'unwrap', 'clear'])
                    # (never decompose(): a destroyed element is no longer a Beautiful Soup tree node - its attributes are gone - and the
                    # walk may already hold a reference to one of its children; what happens then is outside the property)
                    actions.append((who, act))
                    if act == 'extract':
                        tgt.extract()
                    elif act == 'replace_with':
                        tgt.replace_with(soup.new_tag('span') if rng.random() < .5 else bs4.NavigableString('t'))
                    elif act == 'insert_after' and tgt.parent is not None:
                        tgt.insert_after(soup.new_tag(rng.choice(['p', 'span'])))
                    elif act == 'insert_before' and tgt.parent is not None:
                        tgt.insert_before(soup.new_tag(rng.choice(['p', 'span'])))
                    elif act == 'wrap' and tgt.parent is not None:
                        tgt.wrap(soup.new_tag('div'))
                    elif act == 'unwrap' and tgt.parent is not None:
                        tgt.unwrap()
                    elif act == 'clear':
                        tgt.clear()
                return n
            st, r = monitors.guarded_call(go)
            cn['lazy_structural_runs'] = cn.get('lazy_structural_runs', 0) + 1
            cn['lazy_structural_edits'] = cn.get('lazy_structural_edits', 0) + len(actions)
            res['evals'] += len(actions) + 1
            for a in actions:
                sigs.add(sig('lazy-struct', a))
            if st == 'raise' and monitors.exc_site(r) is None and not isinstance(r, RecursionError):
                # raised by Beautiful Soup's own mutators on the caller's side (e.g. editing an already destroyed element)
                cn['caller_side_exception'] = cn.get('caller_side_exception', 0) + 1
                continue
            if st == 'raise':
                cn['VIOL'] = cn.get('VIOL', 0) + 1
                if len(res['viol']) < 4:
                    res['viol'].append({'what': 'iselect(%r) continued after the caller edited the tree (%s) raised %r at %s' % (
                        sel, actions[-3:], r, monitors.exc_site(r)), 'selector': sel, 'class': sig('lazy-struct', type(r).__name__, monitors.exc_site(r)),
                        'monitor': 'lazy-iselect-structural',
                        'lazy': {'theme': 'structural', 'markup': markup, 'parser': parser, 'unit_seed': u['seed'], 'rng_state': repr(state)}})
    res['sigs'] = list(sigs)
    return res


def run_unit(u, sig):
    """One work unit: u = {'kind': 'lazy', 'theme': ..., 'seed': ..., 'n': ...}."""
    import random
    import soupsieve as sv
    if u['theme'] == 'structural':
        return run_structural(u, sig)
    rng = random.Random(u['seed'])
    theme = u['theme']
    res = {'evals': 0, 'sigs': [], 'viol': [], 'samples': [], 'counters': {}}
    cn = res['counters']
    sigs = set()

    def bump(k, n=1):
        cn[k] = cn.get(k, 0) + n

    for _ in range(u['n']):
        markup = doc_generic(rng, theme)
        parser = rng.choice(['html.parser', 'html.parser', 'lxml', 'html5lib'])
        for _q in range(6):
            sel = sel_for(rng, theme)
            soup = bs4.BeautifulSoup(markup, parser)
            scope = soup if rng.random() < .7 else (rng.choice(soup.find_all(['div', 'ul', 'section', 'form', 'body'])) or soup)
            after = rng.choice([1, 1, 2, 3])
            compiled = rng.random() < .5
            state = rng.getstate()
            st0, pre = monitors.guarded_call(sv.select, sel, scope)
            if st0 != 'ok':
                bump('lazy_skip:selector rejected')
                continue
            pre_ids = [id(e) for e in pre]
            edit = make_edit(rng, theme, soup, scope, sel)
            seen = {}

            def wrapped(last, edit=edit, seen=seen):
                seen['last'] = last
                return edit(last)
            st, detail = lazy_law(sv, sel, scope, wrapped, after=after, compiled=compiled)
            bump('lazy_' + st)
            if st == 'skip':
                bump('lazy_skip:' + str(detail)[:30])
                continue
            if st == 'held':
                res['evals'] += detail
                # did the caller's edit change what the selector designates after `last`?  (only those cases can tell a
                # remembered fact from a fresh one)
                now_ids = [id(e) for e in sv.select(sel, scope)]
                last = seen.get('last')
                if last is not None and id(last) in pre_ids:
                    tail_before = pre_ids[pre_ids.index(id(last)) + 1:]
                    tail_now = now_ids[now_ids.index(id(last)) + 1:] if id(last) in now_ids else None
                    if tail_now is not None and tail_before != tail_now:
                        bump('lazy_edit_changed_the_answer')
                        sigs.add(sig('lazy', theme, sel))
                if len(res['samples']) < 1:
                    res['samples'].append({'lazy_theme': theme, 'selector': sel, 'markup': markup[:240], 'after': after})
                continue
            bump('VIOL')
            if len(res['viol']) < 4:
                res['viol'].append({'what': detail, 'selector': sel, 'lazy': {'theme': theme, 'markup': markup, 'parser': parser, 'after': after,
                                                                            'compiled': compiled, 'scope': getattr(scope, 'name', None),
                                                                            'unit_seed': u['seed'], 'rng_state': repr(state)},
                                    'class': sig('lazy', theme, sel.split('(')[0][:12]), 'monitor': 'lazy-iselect'})
    res['sigs'] = list(sigs)
    return res


def replay(w, sig):
    """Re-run the unit that produced the witness (the unit is deterministic in its seed)."""
    lz = w['lazy']
    r = run_unit({'kind': 'lazy', 'theme': lz['theme'], 'seed': lz['unit_seed'], 'n': 400}, sig)
    for v in r['viol']:
        if v['selector'] == w['selector']:
            return dict(w, status_now=v['what'])
    return dict(w, status_now=r['viol'][0]['what']) if r['viol'] else None
